"""C06 - responses interpret every backward-frame outcome: R-RESP (abstract
interpretation over {None, Clean, Err} x byte subsets), R-STR (exception
escape from __str__ with evaluated except clauses), R-BITS (bit dictionary
built by the metaclass vs list order), R-INIT (constructor type guard)."""
import ast

from ..core import AnalysisError, unparse, where
from ..cfg import CFG, explicit_raise_only, _walk_no_nested
from ..fold import Folder
from ..front import ClassInfo
from ..regexec import RegExec
from ..seq import response_class_of, shared_state_writes
from ..tri import TriInterp, ALL_BYTES, brief_bytes

CMD = "dali.command."
MISSING = "dali.exceptions.MissingResponse"
RESPERR = "dali.exceptions.ResponseError"
OUTCOMES = ("none", "clean", "err")


def response_classes(world):
    """Response classes reachable from any Command subclass, with one
    example command each."""
    base = world.cls(CMD + "Command")
    out = {}
    for c in world.class_order:
        if base in c.mro:
            rc = response_class_of(world, c)
            if rc is not None:
                out.setdefault(rc, c)
    return out


def family(c):
    names = [k.qname for k in c.mro if isinstance(k, ClassInfo)]
    for fam in ("YesNoResponse", "NumericResponseMask", "NumericResponse",
                "BitmapResponse", "EnumResponse", "Response"):
        if CMD + fam in names:
            return fam
    return None


def _isa(t, name, base):
    return t.exc_isa(name, base)


def check(run, repo, world):
    run.explanation = (
        "For every response class reachable from a command (discovered from "
        "the class table) and each outcome {no answer, clean frame, framing "
        "error}, the methods raw_value/value/status/__getattr__/__str__ "
        "(resolved through the MRO, super() included, class constants "
        "folded) are abstractly interpreted; a path carries the subset of "
        "the 256 byte values it covers, split only by the code's own "
        "comparisons - so each verdict holds for all 256 answers at once.  "
        "Obligations: the family contract of value (yes/no, numeric, MASK, "
        "generic, enum, bitmap), raw_value identity, MissingResponse/"
        "ResponseError never escape __str__ (except clauses are evaluated: "
        "`except A or B` catches A only), named bits agree with the list "
        "order used by status, constructor type guard.  NOT decided: that "
        "Frame.as_integer is numerically the byte received (C05).")
    run.assumptions += [
        "a BackwardFrame is truthy (Frame.__len__ returns 8)",
        "IntEnum(value) raises ValueError for undefined codes"]
    folder = Folder(world)
    rcs = response_classes(world)
    run.floor("response classes reachable from commands", len(rcs), 34)
    # registration code gives _bit_properties
    rx = RegExec(world, folder)
    rmods = {c.mod for c in rcs} | {"dali.command"}
    rx.create_all([c for c in world.class_order if c.mod in rmods
                   and c.metaclass is not None
                   and c.metaclass.name == "BitmapResponseBitDict"])

    run.rule("R-RESP", "family contract of value/raw_value per outcome "
             "(abstract interpretation, all 256 bytes per path)")
    run.rule("R-STR", "MissingResponse / ResponseError never escape __str__")
    run.rule("R-BITS", "named-bit dictionary == list order used by status")
    for rc in sorted(rcs, key=lambda c: c.qname):
        fam = family(rc)
        mod = repo.mod(rc.mod)
        if fam is None:
            run.ob("R-RESP", rc.qname + "#family", False,
                   "response class is not derived from dali.command.Response",
                   where(mod, rc.node))
            continue
        dyn = {}
        o = rx.objs.get(rc)
        if fam == "BitmapResponse":
            bp = rx.getattr_cls(rx.obj(rc), "_bit_properties", default=None)
            if bp is None:
                raise AnalysisError("%s has no _bit_properties after "
                                    "interpreting the metaclass" % rc.qname)
            dyn["_bit_properties"] = bp
        res = {}
        for oc in OUTCOMES:
            t = TriInterp(world, rc, oc, folder, dyn_attrs=dyn)
            res[oc] = {
                "t": t,
                "value": t.run_attr("value"),
                "raw": t.run_attr("raw_value"),
                "str": t.run_method("__str__"),
            }
            run.count(3)
        _check_raw(run, rc, mod, res)
        _check_str(run, rc, mod, res)
        _check_value(run, world, folder, rc, fam, mod, res)
        if fam == "BitmapResponse":
            _check_bitmap(run, world, folder, rc, mod, res, dyn, rx)
    _check_init(run, repo, world, rcs)
    _check_status_loop(run, repo, world)
    _check_boolop_except(run, repo, world)
    _check_pure(run, repo, world, rcs)


def _sample(rc, what, oc, outs):
    return {"class": rc.qname, "member": what, "outcome": oc,
            "paths": [{"bytes": brief_bytes(o.bytes), o.kind: str(o.val)}
                      for o in outs]}


def _check_raw(run, rc, mod, res):
    for oc in OUTCOMES:
        outs = res[oc]["raw"]
        if oc == "none":
            ok = len(outs) == 1 and outs[0].kind == "return" and \
                outs[0].val.kind == "const" and outs[0].val.val is None
        else:
            ok = all(o.kind == "return" and o.val.kind == "frame"
                     for o in outs) and _covers(outs)
        run.ob("R-RESP", "%s#raw_value[%s]" % (rc.qname, oc), ok,
               "raw_value does not hand back the constructor argument "
               "unchanged: %s" % outs, where(mod, rc.node))


def _covers(outs, want=ALL_BYTES):
    got = set()
    for o in outs:
        if o.bytes is not None:
            got |= o.bytes
    return got == set(want)


def _check_str(run, rc, mod, res):
    for oc in OUTCOMES:
        outs = res[oc]["str"]
        t = res[oc]["t"]
        bad = [o for o in outs if o.kind == "raise" and (
            t.exc_isa(o.val, MISSING) or t.exc_isa(o.val, RESPERR))]
        # a marker string where the integer was expected (str * float,
        # str + int): rendering is total, so a TypeError out of __str__ for
        # one of the outcomes is the same failure under another name
        bad += [o for o in outs if o.kind == "raise" and o.val == "TypeError"]
        r = rc.lookup("__str__")
        owner = r[0].qname if r else "object"
        run.ob("R-STR", "%s#__str__[%s]" % (rc.qname, oc), not bad,
               "str() of this response raises %s for outcome '%s' (bytes "
               "%s); __str__ is %s.__str__" % (
                   bad[0].val.split(".")[-1] if bad else "", oc,
                   brief_bytes(bad[0].bytes) if bad else "", owner),
               where(mod, rc.node),
               sample=_sample(rc, "__str__", oc, outs) if (
                   bad or rc.name in ("Response", "NumericResponseMask"))
               else None)
        if oc == "err":
            # the text of a garbled answer is not chosen by the garbled
            # byte: every path of __str__ covers all 256 bytes (no comparison
            # or table look-up on the byte of a frame whose `error` is set)
            # ... beyond what `value` itself reports for it: a path of
            # __str__ covers whole blocks of the partition value makes of
            # the 256 garbled bytes (one block for every class but the one
            # whose value documents markers computed from the raw byte)
            blocks = [set(o.bytes) for o in res[oc]["value"]
                      if o.bytes is not None]

            def whole(bs):
                bs = set(bs)
                return all(b <= bs or not (b & bs) for b in blocks) and \
                    bs <= set().union(*blocks) if blocks else False
            split = [o for o in outs if o.bytes is not None and
                     set(o.bytes) != set(ALL_BYTES) and not whole(o.bytes)]
            run.ob("R-STR", "%s#__str__[err]#byte-not-interpreted" % rc.qname,
                   not split,
                   "str() of a framing-error answer is chosen by the garbled "
                   "byte where `value` makes no such distinction (bytes %s "
                   "take their own path; __str__ is %s.__str__): a collision or noise that happens to read as a "
                   "defined code is rendered as a clean answer" % (
                       brief_bytes(split[0].bytes) if split else "", owner),
                   where(mod, rc.node))


def _check_value(run, world, folder, rc, fam, mod, res):
    q = rc.qname
    t = res["none"]["t"]
    vn, vc, ve = (res[o]["value"] for o in OUTCOMES)

    def ob(tag, ok, msg, oc):
        run.ob("R-RESP", "%s#value[%s]%s" % (q, oc, tag), ok,
               "%s (family %s): %s" % (msg, fam, res[oc]["value"]),
               where(mod, rc.node),
               sample=_sample(rc, "value", oc, res[oc]["value"])
               if (not ok or rc.name in ("QueryAssignedColourResponse",))
               else None)

    def all_ret(outs, pred):
        return bool(outs) and all(o.kind == "return" and pred(o.val)
                                  for o in outs)

    def const(v):
        return lambda x: x.kind == "const" and x.val is v
    if fam == "YesNoResponse":
        ob("", all_ret(vn, const(False)), "no answer must read as False",
           "none")
        ob("", all_ret(vc, const(True)) and _covers(vc),
           "any clean answer must read as True", "clean")
        ob("", all_ret(ve, const(True)) and _covers(ve),
           "a framing error must read as True (several units answered)",
           "err")
        return
    if fam in ("NumericResponse", "NumericResponseMask"):
        def marker(x):
            return x.kind == "str" or (x.kind == "const" and isinstance(
                x.val, str))
        ob("", all_ret(vn, marker), "no answer must give a non-integer "
           "marker", "none")
        def not_mask(x):
            return not (x.kind == "const" and x.val == "MASK")
        ob("", all_ret(ve, marker) and _covers(ve) and all_ret(ve, not_mask)
           and all_ret(vn, not_mask), "a framing error (or no answer) must "
           "give a non-integer marker that is not 'MASK': MASK stands for a "
           "clean answer of 255", "err")
        if fam == "NumericResponse":
            ok = all_ret(vc, lambda x: x.kind == "byte") and _covers(vc)
            ob("", ok, "a clean answer must give exactly the integer",
               "clean")
        else:
            okb = all(o.kind == "return" for o in vc) and _covers(vc)
            for o in vc:
                if o.kind != "return":
                    continue
                if 255 in o.bytes:
                    okb = okb and o.val.kind == "const" and \
                        o.val.val == "MASK" and o.bytes == {255}
                else:
                    okb = okb and o.val.kind == "byte"
            ob("", okb, "a clean answer must give the integer, and MASK "
               "exactly for 255", "clean")
        return
    # generic / enum / bitmap: the base contract with the class's switches
    exp = folder.class_attr(rc, "_expected")
    acc = folder.class_attr(rc, "_error_acceptable")
    if not isinstance(exp, bool) or not isinstance(acc, bool):
        raise AnalysisError("%s: _expected/_error_acceptable do not fold to "
                            "booleans" % q)
    if fam == "BitmapResponse":
        # the bits of a garbled answer are not the unit's status: only the
        # yes/no family reads a framing error as an answer (several units
        # answering at once), a bitmap handed out with one is wrong data
        ob("#garbled-bitmap-refused", acc is False,
           "a bitmap response must not accept a framing error "
           "(_error_acceptable is True): .value then hands out the bits of a "
           "garbled frame instead of raising ResponseError", "err")
    if exp:
        ok = bool(vn) and all(o.kind == "raise" and t.exc_isa(o.val, MISSING)
                              for o in vn)
        ob("", ok, "a missing answer must raise MissingResponse", "none")
    else:
        ob("", all_ret(vn, const(None)), "a missing (optional) answer must "
           "read as None", "none")
    if fam == "EnumResponse":
        mem = set()
        en = folder.class_attr(rc, "enumerator")
        from ..fold import ClassRef
        if isinstance(en, ClassRef):
            mem = {v for v in folder.enum_members(en.cls).values()
                   if isinstance(v, int)}
        if not mem:
            raise AnalysisError("%s: enumerator does not fold" % q)
        okc = _covers(vc)
        # a class with its own `value` may document markers for some codes
        # (QueryAssignedColourResponse); the inherited EnumResponse.value
        # rejects every undefined code with ValueError
        vdef = rc.lookup("value")
        own_value = vdef is not None and vdef[0].name != "EnumResponse"
        for o in vc:
            if o.kind == "return" and o.val.kind == "enum":
                okc = okc and o.bytes <= mem
            elif o.kind == "return" and not own_value:
                okc = False
            elif o.kind == "return":
                # a marker for undefined codes is tolerated, a wrong member
                # or an integer is not
                okc = okc and not (o.bytes & mem) and (
                    o.val.kind in ("str",) or (o.val.kind == "const"
                                               and isinstance(o.val.val,
                                                              str)))
            else:
                okc = okc and o.val == "ValueError" and not (o.bytes & mem)
        ob("", okc, "defined codes must give the enum member, undefined "
           "codes must be rejected (ValueError or a marker)", "clean")
    else:
        ob("", all_ret(vc, lambda x: x.kind == "frame") and _covers(vc),
           "a clean answer must hand back the frame itself", "clean")
    # framing error
    if fam == "EnumResponse":
        # undefined-code markers computed from the raw byte are tolerated;
        # anything claiming a defined member must raise ResponseError
        oke = _covers(ve)
        for o in ve:
            if o.kind == "raise":
                oke = oke and t.exc_isa(o.val, RESPERR)
            elif o.val.kind == "enum":
                oke = False
        ob("", oke, "a framing error must never yield an enum member", "err")
    elif acc:
        ob("", all_ret(ve, lambda x: x.kind == "frame") and _covers(ve),
           "a tolerated framing error must hand back the frame", "err")
    else:
        ok = bool(ve) and all(o.kind == "raise" and t.exc_isa(o.val, RESPERR)
                              for o in ve) and _covers(ve)
        ob("", ok, "a framing error must raise ResponseError", "err")


def _check_bitmap(run, world, folder, rc, mod, res, dyn, rx):
    q = rc.qname
    bits = folder.class_attr(rc, "bits")
    if not isinstance(bits, (list, tuple)):
        raise AnalysisError("%s.bits does not fold to a list" % q)
    run.ob("R-BITS", q + "#at-most-8", len(bits) <= 8,
           "%d bit names for an 8-bit answer" % len(bits),
           where(mod, rc.node))
    bp = dyn["_bit_properties"]
    named = [(i, b) for i, b in enumerate(bits) if b]
    # (1) every named bit is exposed under some name, at its list index -
    # the index status uses (R-STATUS-LOOP checks status walks LSB first)
    idx_ok = sorted(bp.values()) == [i for i, _ in named]
    by_index = {v: k for k, v in bp.items()}
    detail = []
    for i, b in named:
        if i not in by_index:
            detail.append("bit %d (%r) has no attribute" % (i, b))
    for name, i in bp.items():
        if i >= len(bits) or not bits[i]:
            detail.append("attribute %s reads bit %d, which is not a named "
                          "bit" % (name, i))
        else:
            want = bits[i].replace(" ", "_").replace("-", "")
            if name != want:
                detail.append("attribute %s reads bit %d, named %r"
                              % (name, i, bits[i]))
    run.ob("R-BITS", q + "#bit-dictionary", idx_ok and not detail,
           "named-bit attributes disagree with the list order that status "
           "uses: %s" % "; ".join(detail[:4]), where(mod, rc.node),
           sample={"class": q, "bits": list(bits), "_bit_properties": bp})
    run.ob("R-BITS", q + "#unique-names", len(bp) == len(named),
           "two bit names mangle to the same attribute name",
           where(mod, rc.node))
    # (2) not shadowed by a real attribute (then __getattr__ is never asked)
    for name in bp:
        r = rc.lookup(name)
        run.ob("R-BITS", "%s#shadow:%s" % (q, name), r is None,
               "named bit %s is shadowed by %s.%s" % (
                   name, r[0].qname if r else "", name), where(mod, rc.node),
               trivial=True)
    # (3) attribute access per outcome, through __getattr__
    for name, i in sorted(bp.items(), key=lambda kv: kv[1]):
        if rc.lookup(name) is not None:
            continue
        for oc in OUTCOMES:
            t = TriInterp(world, rc, oc, folder, dyn_attrs=dyn)
            outs = t.run_attr(name)
            run.count(1)
            if oc == "clean":
                ok = bool(outs) and all(
                    o.kind == "return" and o.val.kind == "framebit"
                    and o.val.val == i for o in outs)
                msg = "attribute %s must read frame bit %d" % (name, i)
            else:
                ok = bool(outs) and all(
                    o.kind == "return" and o.val.kind == "const"
                    and o.val.val is None for o in outs)
                msg = "attribute %s must be None without a clean frame" % name
            run.ob("R-BITS", "%s#attr:%s[%s]" % (q, name, oc), ok,
                   "%s: %s" % (msg, outs), where(mod, rc.node),
                   sample=_sample(rc, name, oc, outs) if i == 0 and
                   oc == "clean" else None)
    # (4) status per outcome
    for oc in OUTCOMES:
        t = TriInterp(world, rc, oc, folder, dyn_attrs=dyn)
        outs = t.run_attr("status")
        if oc == "none":
            ok = bool(outs) and all(o.kind == "raise" and t.exc_isa(
                o.val, MISSING) for o in outs)
        else:
            ok = bool(outs) and all(o.kind == "return" for o in outs)
        run.ob("R-RESP", "%s#status[%s]" % (q, oc), ok,
               "status: %s" % outs, where(mod, rc.node))
        if oc == "none":
            # the two readings of one response agree on what a missing
            # answer is: status refuses it, so must value (a bitmap has no
            # 'absent' reading; check_bad_rsp relies on value raising)
            vouts = t.run_attr("value")
            okv = bool(vouts) and all(o.kind == "raise" and t.exc_isa(
                o.val, MISSING) for o in vouts)
            run.ob("R-RESP", "%s#value~status[none]" % q, okv,
                   "status raises MissingResponse for a missing answer but "
                   "value gives %s: a bitmap response cannot tolerate a "
                   "missing answer and must say so through every reading"
                   % vouts, where(mod, rc.node))


def _check_status_loop(run, repo, world):
    """BitmapResponse.status walks `bits` LSB first: the append is guarded by
    the low bit of the working value and the value is shifted right by one on
    every iteration."""
    run.rule("R-STATUS-LOOP", "status: append guarded by (v & 1) and the "
             "name, v >>= 1 on every iteration, v starts as all 8 bits")
    c = world.cls(CMD + "BitmapResponse")
    mod = repo.mod(c.mod)
    r = c.lookup("status")
    if r is None:
        raise AnalysisError("BitmapResponse.status vanished")
    from ..normal import normalise
    fn = normalise(r[2], world, r[0].mod, r[0], aliases="params")
    # a local bound once to the received frame (`received = self._value`) is
    # that attribute
    from ..inline import acopy as _acp
    al = {}
    for n_ in ast.walk(fn):
        if isinstance(n_, ast.Assign) and len(n_.targets) == 1 and \
                isinstance(n_.targets[0], ast.Name):
            al.setdefault(n_.targets[0].id, []).append(n_)
    al = {k_: v_[0] for k_, v_ in al.items() if len(v_) == 1 and unparse(
        v_[0].value) == "self._value"}
    if al:
        fn = _acp(fn)

        class _A(ast.NodeTransformer):
            def visit_Name(self, n_):
                if isinstance(n_.ctx, ast.Load) and n_.id in al:
                    return ast.copy_location(ast.Attribute(
                        ast.Name("self", ast.Load()), "_value", ast.Load()),
                        n_)
                return n_
        fn = _A().visit(fn)
        ast.fix_missing_locations(fn)
    cfg = CFG(fn, may_raise=explicit_raise_only, name="BitmapResponse.status")
    loops = [n for n in cfg.reachable if n.kind == "for"]
    K = CMD + "BitmapResponse.status"
    if len(loops) == 0:
        # comprehension form: [name for i, name in enumerate(self.bits)
        #                      if name and v >> i & 1]
        comp = None
        for n in cfg.reachable:
            if n.kind == "stmt" and isinstance(n.ast, ast.Return) and \
                    isinstance(n.ast.value, ast.ListComp):
                comp = n.ast.value
        inits = {}
        for n in cfg.reachable:
            if n.kind == "stmt" and isinstance(n.ast, ast.Assign) and \
                    isinstance(n.ast.targets[0], ast.Name) and unparse(
                        n.ast.value) in ("self._value[7:0]",
                                         "self._value[0:7]",
                                         "self._value.as_integer"):
                inits[n.ast.targets[0].id] = unparse(n.ast.value)
        if comp is not None and len(comp.generators) == 1 and unparse(
                comp.generators[0].iter) == "enumerate(self.bits)" and \
                isinstance(comp.generators[0].target, ast.Tuple) and len(
                    comp.generators[0].target.elts) == 2:
            g = comp.generators[0]
            idx, b = [unparse(x) for x in g.target.elts]
            conds = set()
            for t in g.ifs:
                for x in (t.values if isinstance(t, ast.BoolOp) and
                          isinstance(t.op, ast.And) else [t]):
                    conds.add(unparse(x))
            vs = list(inits) + list(inits.values())
            tests = set()
            for v in vs:
                tests |= {"%s & 1 << %s" % (v, idx), "%s >> %s & 1" % (v, idx),
                          "%s >> %s & 1 == 1" % (v, idx),
                          "%s & 1 << %s != 0" % (v, idx)}
            tests.add("self._value[%s]" % idx)
            run.ob("R-STATUS-LOOP", K + "#shift-every-iteration", True)
            run.ob("R-STATUS-LOOP", K + "#append-guard",
                   unparse(comp.elt) == b and b in conds and bool(
                       conds & tests) and len(conds) == 2,
                   "a name must be listed exactly when bit %s of the answer "
                   "is set and the bit is named (conditions: %s)"
                   % (idx, sorted(conds)), where(mod, fn))
            run.ob("R-STATUS-LOOP", K + "#test-before-shift", True)
            run.ob("R-STATUS-LOOP", K + "#initial", bool(inits) or any(
                "self._value[" in c_ for c_ in conds),
                "the bit test must read the 8-bit answer", where(mod, fn))
            return
    if len(loops) != 1:
        raise AnalysisError("BitmapResponse.status: expected exactly one "
                            "loop over the bit names (found %d); the form "
                            "is not one the rule can read" % len(loops))
    loop = loops[0]
    it = unparse(loop.ast.iter)
    idx = None
    if it == "self.bits" and isinstance(loop.ast.target, ast.Name):
        b = loop.ast.target.id
    elif it == "enumerate(self.bits)" and isinstance(
            loop.ast.target, ast.Tuple) and len(loop.ast.target.elts) == 2:
        idx, b = [unparse(x) for x in loop.ast.target.elts]
    else:
        raise AnalysisError("BitmapResponse.status: loop `for %s in %s` is "
                            "not a walk over self.bits the rule can read"
                            % (unparse(loop.ast.target), it))
    # the working variable: shifted in the loop
    shift_nodes = []
    for n in cfg.reachable:
        if n.kind == "stmt":
            a = n.ast
            if isinstance(a, ast.Assign) and isinstance(
                    a.value, ast.BinOp) and isinstance(
                        a.value.op, ast.RShift) and unparse(
                            a.value.right) == "1" and unparse(
                                a.targets[0]) == unparse(a.value.left):
                shift_nodes.append((n, unparse(a.targets[0])))
            if isinstance(a, ast.AugAssign) and isinstance(
                    a.op, ast.RShift) and unparse(a.value) == "1":
                shift_nodes.append((n, unparse(a.target)))
            if isinstance(a, ast.Assign) and isinstance(
                    a.value, ast.BinOp) and isinstance(
                        a.value.op, ast.FloorDiv) and unparse(
                            a.value.right) == "2" and unparse(
                                a.targets[0]) == unparse(a.value.left):
                shift_nodes.append((n, unparse(a.targets[0])))
    # candidate working variables: names assigned from the answer
    inits = {}
    for n in cfg.reachable:
        if n.kind == "stmt" and isinstance(n.ast, ast.Assign) and isinstance(
                n.ast.targets[0], ast.Name) and unparse(n.ast.value) in (
                    "self._value[7:0]", "self._value[0:7]",
                    "self._value.as_integer"):
            inits[n.ast.targets[0].id] = unparse(n.ast.value)

    def low_tests(v):
        return ("%s & 1" % v, "%s & 1 == 1" % v, "%s %% 2" % v,
                "%s & 1 != 0" % v, "%s & 1 == 1" % v, "%s %% 2 == 1" % v)

    def idx_tests(v):
        return ("%s & 1 << %s" % (v, idx), "%s >> %s & 1" % (v, idx),
                "%s & 1 << %s != 0" % (v, idx), "self._value[%s]" % idx,
                "%s >> %s & 1 == 1" % (v, idx))
    appends = [n for n in cfg.reachable if n.kind == "stmt" and any(
        isinstance(c2, ast.Call) and isinstance(c2.func, ast.Attribute)
        and c2.func.attr == "append" and unparse(c2.args[0]) == b
        for c2 in _walk_no_nested(n.ast))]
    if len(appends) != 1:
        raise AnalysisError("BitmapResponse.status: expected one append of "
                            "the bit name inside the loop")
    conds = _dominating_true_tests(cfg, appends[0])
    if idx is None:
        # form A: shift-and-test-low-bit
        ok_shift = False
        v = None
        if len(shift_nodes) == 1:
            sn, v = shift_nodes[0]
            ok_shift = _all_cycles_pass(loop, sn)
        run.ob("R-STATUS-LOOP", K + "#shift-every-iteration", ok_shift,
               "the working value must be shifted right by one exactly once "
               "on every iteration (also for unnamed bits)", where(mod, fn))
        low = v is not None and any(t in conds for t in low_tests(v))
        run.ob("R-STATUS-LOOP", K + "#append-guard", low and b in conds,
               "a name must be appended exactly when the low bit of the "
               "working value is set and the bit is named (dominating "
               "tests: %s)" % sorted(conds), where(mod, fn))
        # within one iteration the test must come before the shift:
        # iteration k tests bit k of the answer
        early = False
        if len(shift_nodes) == 1:
            seen, stack = set(), [m for (l, m) in shift_nodes[0][0].succ
                                  if l != "exc"]
            while stack:
                n = stack.pop()
                if n.id in seen or n is loop:
                    continue
                seen.add(n.id)
                if n.kind == "test" and v is not None and unparse(
                        n.ast) in low_tests(v):
                    early = True
                stack += [m for (l, m) in n.succ if l != "exc"]
        run.ob("R-STATUS-LOOP", K + "#test-before-shift", not early,
               "the low-bit test is reachable after the shift within the "
               "same iteration: iteration k then tests bit k+1 and bit 0 "
               "is never reported", where(mod, fn))
    else:
        # form B: indexed test, no shifting
        vs = list(inits) or ["v"]
        hit = any(t in conds for v in vs for t in idx_tests(v))
        run.ob("R-STATUS-LOOP", K + "#shift-every-iteration",
               not shift_nodes, "indexed form must not also shift the "
               "working value", where(mod, fn))
        run.ob("R-STATUS-LOOP", K + "#append-guard", hit and b in conds,
               "a name must be appended exactly when bit %s of the answer "
               "is set and the bit is named (dominating tests: %s)"
               % (idx, sorted(conds)), where(mod, fn))
        run.ob("R-STATUS-LOOP", K + "#test-before-shift", True)
        v = vs[0]
    init = inits.get(v) if v else None
    if idx is not None and any("self._value[%s]" % idx in c for c in conds):
        init = "self._value[%s]" % idx
    run.ob("R-STATUS-LOOP", K + "#initial", init is not None,
           "working value starts as %s, expected the full 8-bit answer"
           % init, where(mod, fn))


def _all_cycles_pass(loop, node):
    seen, stack = set(), [m for (l, m) in loop.succ if l == "loop"]
    while stack:
        n = stack.pop()
        if n.id in seen or n is node:
            continue
        seen.add(n.id)
        if n is loop:
            return False
        stack += [m for (l, m) in n.succ if l != "exc"]
    return True


def _dominating_true_tests(cfg, node):
    from ..cfg import forward

    def edge(src, label, dst, st):
        if src.kind == "test" and label == "T":
            return st | {unparse(src.ast)}
        return st
    IN = forward(cfg, lambda n, st: st, must=True, edge_transfer=edge)
    return set(IN.get(node.id, ()))


def _check_init(run, repo, world, rcs):
    run.rule("R-INIT", "a response can only be built from None or a "
             "BackwardFrame (TypeError otherwise); no subclass bypasses it")
    base = world.cls(CMD + "Response")
    mod = repo.mod(base.mod)
    r = base.lookup("__init__")
    fn = r[2]
    cfg = CFG(fn, may_raise=explicit_raise_only, name="Response.__init__")
    p = fn.args.args[1].arg
    # store of self._value must be dominated by: val is None or isinstance
    stores = [n for n in cfg.reachable if n.kind == "stmt" and isinstance(
        n.ast, ast.Assign) and unparse(n.ast.targets[0]) == "self._value"]
    ok = len(stores) == 1 and unparse(stores[0].ast.value) == p
    run.ob("R-INIT", CMD + "Response.__init__#stores-argument", ok,
           "self._value must be assigned the constructor argument unchanged",
           where(mod, fn))
    # paths to the store: enumerate tests; the store must be unreachable
    # when (val is not None) and not isinstance(val, BackwardFrame)
    okg = False
    for n in cfg.reachable:
        if n.kind == "stmt" and isinstance(n.ast, ast.Raise):
            exc = n.ast.exc
            f = exc.func if isinstance(exc, ast.Call) else exc
            if unparse(f) == "TypeError":
                conds = _dominating_true_tests_both(cfg, n)
                isin = [c for c in conds if c[0].startswith(
                    "isinstance(%s, " % p) and c[1] is False]
                notnone = (("%s is None" % p, False) in conds or (
                    "%s is not None" % p, True) in conds)
                if isin and notnone:
                    k = world.resolve_class(base.mod, ast.parse(
                        isin[0][0], mode="eval").body.args[1])
                    okg = k is not None and k.qname == \
                        "dali.frame.BackwardFrame"
    run.ob("R-INIT", CMD + "Response.__init__#type-guard", okg,
           "TypeError must be raised for anything that is neither None nor a "
           "BackwardFrame", where(mod, fn))
    # ... decided per path, on the argument itself: every path that does not
    # raise has established `arg is None` or isinstance(arg, BackwardFrame)
    # about the value the caller passed (a re-bound parameter is another
    # value) and stores exactly that value
    from .. import paths as _paths
    from ..normal import normalise as _norm
    try:
        ps = _paths.summaries(_norm(fn, world, base.mod, base,
                                    aliases=False))
    except _paths.Unsupported as e:
        raise AnalysisError("Response.__init__ is not loop-free: %s" % e)
    n_ok = 0
    for p_ in ps:
        if p_.kind == "raise":
            continue
        n_ok += 1
        est = False
        for (t_, b_) in p_.conds:
            txt = unparse(t_)
            if (txt == "%s is None" % p and b_) or (
                    txt == "%s is not None" % p and not b_):
                est = True
            if b_ and isinstance(t_, ast.Call) and unparse(
                    t_.func) == "isinstance" and len(
                        t_.args) == 2 and unparse(t_.args[0]) == p:
                ks = t_.args[1].elts if isinstance(
                    t_.args[1], ast.Tuple) else [t_.args[1]]
                rs = [world.resolve_class(base.mod, k_) for k_ in ks]
                if rs and all(k_ is not None and any(
                        getattr(m_, "qname", None) ==
                        "dali.frame.BackwardFrame" for m_ in k_.mro)
                        for k_ in rs):
                    est = True
        stored = [unparse(v) for (t, v) in p_.effects if t == "self._value"]
        run.ob("R-INIT", CMD + "Response.__init__#accepting-path",
               est and stored[-1:] == [p],
               "a path of Response.__init__ accepts its argument under %s "
               "and stores `%s`: an object that is neither None nor a "
               "BackwardFrame gets through, or something other than the "
               "argument is kept" % (
                   [(unparse(t_, 60), b_) for (t_, b_) in p_.conds],
                   stored[-1] if stored else None), where(mod, fn))
    if not n_ok:
        raise AnalysisError("Response.__init__ has no accepting path")
    for rc in rcs:
        r2 = rc.lookup("__init__")
        run.ob("R-INIT", rc.qname + "#uses-base-init",
               r2 is not None and r2[0] is base,
               "response class defines its own __init__ (%s): the type "
               "guard may be bypassed" % (r2[0].qname if r2 else None),
               where(repo.mod(rc.mod), rc.node), trivial=True)


def _dominating_true_tests_both(cfg, node):
    from ..cfg import forward

    def edge(src, label, dst, st):
        if src.kind == "test" and label in ("T", "F"):
            return st | {(unparse(src.ast), label == "T")}
        return st
    IN = forward(cfg, lambda n, st: st, must=True, edge_transfer=edge)
    return set(IN.get(node.id, ()))


def _check_boolop_except(run, repo, world):
    """R-EXCEPT-BOOLOP: an except clause whose type expression is a boolean
    expression catches only the operand it evaluates to."""
    run.rule("R-EXCEPT-BOOLOP", "no except clause with a BoolOp type in the "
             "response modules")
    n = 0
    for mname in sorted(repo.modules):
        m = repo.modules[mname]
        for node in ast.walk(m.tree):
            if isinstance(node, ast.ExceptHandler):
                n += 1
                if isinstance(node.type, ast.BoolOp):
                    fn = node
                    while fn is not None and not isinstance(
                            fn, (ast.FunctionDef, ast.AsyncFunctionDef)):
                        fn = getattr(fn, "_parent", None)
                    cls = getattr(fn, "_parent", None) if fn else None
                    key = "%s.%s.%s" % (mname, getattr(cls, "name", "?"),
                                        getattr(fn, "name", "?"))
                    run.ob("R-EXCEPT-BOOLOP", key, False,
                           "`except %s` catches only %s" % (
                               unparse(node.type),
                               unparse(node.type.values[0] if isinstance(
                                   node.type.op, ast.Or)
                                   else node.type.values[-1])),
                           where(m, node))
    run.analysed["except clauses scanned"] = n
    if not any(r == "R-EXCEPT-BOOLOP" and v["sites"]
               for r, v in run.rules.items()):
        run.ob("R-EXCEPT-BOOLOP", "all-modules", True, trivial=True)


def _check_pure(run, repo, world, rcs):
    """R-RESP-PURE: what a response says is a function of the frame it was
    built from.  A method of a response class that writes to something
    shared between responses (a class-level container, the class, a module
    global) makes one answer's interpretation depend on another's."""
    run.rule("R-RESP-PURE", "no method of a response class writes to state "
             "shared between responses (class attribute, module global)")
    seen = set()
    n = 0
    for rc in rcs:
        for k in rc.mro:
            if not isinstance(k, ClassInfo) or k in seen:
                continue
            seen.add(k)
            mod = repo.mod(k.mod)
            for (mn, (kind, f)) in sorted(k.methods.items()):
                n += 1
                bad = shared_state_writes(world, k, f)
                run.ob("R-RESP-PURE", "%s.%s" % (k.qname, mn), not bad,
                       "%s.%s writes to state shared between responses "
                       "(%s): what one answer is decoded to then depends "
                       "on the answers decoded before it" % (
                           k.qname, mn, "; ".join(bad[:3])),
                       where(mod, f))
    run.floor("response class methods examined for shared writes", n, 20)
