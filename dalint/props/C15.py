"""C15 - async drivers: lockset over the call graph (R-LOCK-SET), acquire /
release pairing with exceptional edges (R-LOCK-PAIR), EnableDeviceType
adjacency inside the critical section (R-EDT)."""
import ast

from ..core import AnalysisError, unparse, where
from ..cfg import CFG, suspension_may_raise, path_str, _walk_no_nested
from ..front import ClassInfo
from ..drv import (DRIVER_PRIMITIVES, expand_method, HID, SER, methods_of, resolve_self_call, call_sites,
                   is_wire_write, lock_worlds, lock_events, family)

TL = "transaction_lock"

# Handshake writes: issued while the driver is still connecting (before
# `connected` is set), when no caller can hold or need the transaction lock.
HANDSHAKE = {
    HID + ".tridonic._initialise_device":
        "firmware-version query sent from connect(), before connected is set",
    HID + ".tridonic._handle_read":
        "serial-number query sent while handling the version reply, before "
        "connected is set",
    SER + ".DriverLubaRs232.LubaProtocol.send_device_info_query":
        "called from connect() before _connected is set",
    SER + ".DriverLubaRs232.LubaProtocol.send_device_settings":
        "called from connect() before _connected is set",
    SER + ".DriverSCIRS232.SCIRS232Protocol.send_device_info_query":
        "called from connect() before _connected is set",
}
PUBLIC_ENTRIES = ("send", "run_sequence", "power_supply")


class Fn:
    def __init__(self, cls, name, fn):
        self.cls, self.name, self.fn = cls, name, fn
        self.q = "%s.%s" % (cls.qname, name)
        self._cfg = None
        self._W = None

    @property
    def cfg(self):
        if self._cfg is None:
            self._cfg = CFG(self.fn, may_raise=suspension_may_raise,
                            name=self.q)
        return self._cfg

    @property
    def W(self):
        if self._W is None:
            self._W = lock_worlds(self.cfg)
        return self._W

    def node_of(self, call):
        for n in self.cfg.reachable:
            if n.ast is None:
                continue
            a = n.ast
            if n.kind == "for":
                a = n.ast.iter
            if n.kind in ("with_enter", "with_exit", "except"):
                continue
            for c in _walk_no_nested(a):
                if c is call:
                    return n
        return None


def build(world):
    fns = {}
    for modname in (HID, SER):
        for (c, name, kind, fn) in methods_of(world, modname):
            fns[(c, name)] = Fn(c, name, expand_method(world, c, fn))
    # helpers that were inlined everywhere are not call-graph nodes
    called = set()
    for F in fns.values():
        for call in call_sites(F.fn):
            if isinstance(call.func, ast.Attribute):
                called.add(call.func.attr)
    for key in list(fns):
        c, name = key
        if name not in DRIVER_PRIMITIVES and name.startswith("_") and \
                name not in called:
            del fns[key]
    # callers
    callers = {}
    for key, F in fns.items():
        for call in call_sites(F.fn):
            for (k, fn2) in resolve_self_call(world, F.cls, call):
                callers.setdefault((k, fn2.name), []).append((F, call))
    return fns, callers


def check(run, repo, world):
    run.explanation = (
        "Lockset argument, sound for every asyncio schedule because "
        "asyncio.Lock gives mutual exclusion independent of interleaving: "
        "every wire write (os.write on the hidraw fd, transport.write) "
        "reachable from send/run_sequence/power_supply executes while "
        "transaction_lock is held - in the function itself, in every caller "
        "(call graph with virtual dispatch inside the driver class family), "
        "or under an in_transaction parameter that every in-repo caller "
        "passes only while holding the lock; handshake writes before "
        "`connected` are exempt by name.  Acquire/release pairing is decided "
        "on CFGs with exceptional edges at every await (cancellation): the "
        "lock acquired in a function is released on every exit, never "
        "released unheld, the sequence is closed on every exit.  Inside the "
        "critical section every transmission of a caller-supplied command is "
        "preceded, with nothing in between, by EnableDeviceType when its "
        "devicetype is non-zero.  NOT decided: liveness ('every caller "
        "eventually completes').")
    run.assumptions += [
        "asyncio.Lock / Semaphore semantics; `async with` releases on every "
        "exit", "a cancelled `await lock.acquire()` does not hold the lock",
        "methods are resolved by name within the driver's class family "
        "(bases, subclasses, nested protocol class)"]
    fns, callers = build(world)
    run.analysed["driver methods"] = len(fns)

    # ---- R-LOCK-SET ---------------------------------------------------------
    run.rule("R-LOCK-SET", "every wire write executes under transaction_lock "
             "(lockset over the call graph)")
    sites = []
    for F in fns.values():
        for call in call_sites(F.fn):
            k = is_wire_write(call)
            if k:
                sites.append((F, call, k))
    run.floor("wire write sites (hid.py, serial.py)", len(sites), 10)
    for (F, call, kind) in sorted(sites, key=lambda s: s[0].q):
        mod = repo.mod(F.cls.mod)
        key = "%s#%s" % (F.q, kind)
        if F.q in HANDSHAKE:
            ok, why = _check_handshake(world, fns, callers, F, call)
            run.ob("R-LOCK-SET", key + "[handshake]", ok,
                   "exempt handshake write (%s) is no longer connect-time "
                   "only: %s" % (HANDSHAKE[F.q], why), where(mod, call),
                   sample={"rule": "R-LOCK-SET", "site": key,
                           "exempt": HANDSHAKE[F.q]})
            continue
        node = F.node_of(call)
        if node is None:
            raise AnalysisError("write site not found in CFG of %s" % F.q)
        ok, chain = _held_at(world, fns, callers, F, node, 0, set())
        run.ob("R-LOCK-SET", key, ok,
               "wire write reachable without transaction_lock: %s" % chain,
               where(mod, call),
               sample={"rule": "R-LOCK-SET", "site": key, "verdict": chain})
        # the per-gateway serialiser
        ser = [ln for (t, ln) in _held_must(F, node) if ln != TL]
        run.ob("R-LOCK-SET", key + "[serialiser]", bool(ser),
               "the write is not inside the gateway serialiser "
               "(`async with self._command_semaphore/_command_lock/_tx_lock`)",
               where(mod, call))

    check_lock_pair(run, repo, world, fns)
    # the lock object lives as long as the driver: replaced while a caller
    # holds or queues for the old one, the holder releases a lock it never
    # acquired and the queued callers wait for ever
    for modname_ in (HID, SER):
        m_ = repo.mod(modname_)
        for (c_, name_, kind_, f_) in methods_of(world, modname_):
            for n_ in ast.walk(f_):
                if isinstance(n_, (ast.Assign, ast.AugAssign,
                                   ast.AnnAssign)):
                    tg = n_.targets if isinstance(n_, ast.Assign) else [
                        n_.target]
                    for t_ in tg:
                        if isinstance(t_, ast.Attribute) and \
                                t_.attr == "transaction_lock":
                            run.ob("R-LOCK-PAIR", "%s.%s#creates-"
                                   "transaction_lock" % (c_.qname, name_),
                                   name_ == "__init__",
                                   "transaction_lock is (re)created in %s: "
                                   "only the constructor may create it"
                                   % name_, where(m_, n_))
    # 'every caller eventually completes': the one wait a caller makes while
    # it holds the lock (the Tridonic sender on its event) is not entered
    # while a report for it is already queued (shared with C17)
    from .C17 import check_mailbox_wait, _fn as _fn17
    o17, f17 = _fn17(world, HID + ".tridonic", "_send_raw")
    check_mailbox_wait(run, world, repo.mod(HID), f17, CFG(
        f17, may_raise=suspension_may_raise,
        name=HID + ".tridonic._send_raw"), HID + ".tridonic._send_raw",
        "R-LOCK-PAIR")

    # ---- R-EDT --------------------------------------------------------------
    _check_edt(run, repo, world, fns)
    _check_single_write(run, repo, world, fns)
    _check_examples(run, repo)


def check_lock_pair(run, repo, world, fns):
    # ---- R-LOCK-PAIR --------------------------------------------------------
    run.rule("R-LOCK-PAIR", "lock acquired in a function is released on "
             "every exit (normal, exception, cancellation); never released "
             "unheld; sequence closed on every exit")
    npair = 0
    for F in sorted(fns.values(), key=lambda f: f.q):
        evs = [e for n in F.cfg.reachable for e in lock_events(n)]
        if not any(ln == TL for (_, ln) in evs):
            continue
        npair += 1
        mod = repo.mod(F.cls.mod)
        W = F.W
        for ex, what in ((F.cfg.exit, "normal exit"),
                         (F.cfg.raise_exit, "exception/cancellation exit")):
            bad = W.worlds_with(ex, lambda w: ("held", TL) in w)
            run.ob("R-LOCK-PAIR", "%s#released-on-%s" % (
                F.q, what.split()[0]), not bad,
                "transaction_lock is still held at the %s: %s" % (
                    what, path_str(W.trace(ex, bad[0])[-10:], 10)
                    if bad else ""), where(mod, F.fn),
                sample={"rule": "R-LOCK-PAIR", "function": F.q,
                        "exit": what, "worlds": len(W.at(ex))})
        badrel = []
        for n in F.cfg.reachable:
            for w in W.at(n):
                if ("bad-release", TL) in w:
                    badrel.append((n, w))
        seen_exit = [x for x in badrel if x[0] in (F.cfg.exit,
                                                   F.cfg.raise_exit)]
        run.ob("R-LOCK-PAIR", F.q + "#release-only-when-held",
               not badrel,
               "transaction_lock.release() can run on a path where this "
               "task does not hold the lock (e.g. the acquire itself was "
               "cancelled): it raises RuntimeError or frees a lock owned by "
               "another caller: %s" % (path_str(W.trace(
                   badrel[0][0], badrel[0][1])[-8:], 8) if badrel else ""),
               where(mod, F.fn))
        # guards agree: acquire under `not in_transaction` <=> release
        if "in_transaction" in [a.arg for a in F.fn.args.args]:
            okg = True
            for n in F.cfg.reachable:
                for (k, ln) in lock_events(n):
                    if ln == TL and k in ("acquire", "release"):
                        if not W.must(n, ("cond", "in_transaction", False)):
                            okg = False
            run.ob("R-LOCK-PAIR", F.q + "#guard", okg,
                   "acquire/release of transaction_lock must both be guarded "
                   "by `not in_transaction`", where(mod, F.fn))
            # ... and the flag is the caller's statement that *it* holds the
            # lock: the function does not compute its own
            rebound = []
            for n_ in ast.walk(F.fn):
                if isinstance(n_, ast.Name) and n_.id == "in_transaction" \
                        and isinstance(n_.ctx, (ast.Store, ast.Del)):
                    p_ = getattr(n_, "_parent", None)
                    v_ = getattr(p_, "value", None)
                    if isinstance(p_, ast.Assign) and unparse(v_) in (
                            "bool(in_transaction)", "in_transaction"):
                        continue
                    rebound.append(n_)
            run.ob("R-LOCK-PAIR", F.q + "#flag-is-callers", not rebound,
                   "in_transaction is recomputed inside the function (line "
                   "%s): whether this caller holds transaction_lock is "
                   "only known to the caller (locked() says somebody holds "
                   "it)" % ", ".join(str(n_.lineno) for n_ in rebound),
                   where(mod, F.fn))
    run.floor("functions managing transaction_lock", npair, 5)
    # the per-gateway serialisers taken by hand (`await lock.acquire()` in
    # place of `async with lock`): released on every exit as well - a
    # confirmation that never arrives, or a cancelled caller, otherwise
    # leaves the mutex taken and every later send waits for ever while
    # holding transaction_lock
    for F in sorted(fns.values(), key=lambda f: f.q):
        others = sorted({ln for n in F.cfg.reachable
                         for (k, ln) in lock_events(n)
                         if k == "acquire" and ln != TL})
        for ln in others:
            mod = repo.mod(F.cls.mod)
            for ex, what in ((F.cfg.exit, "normal"),
                             (F.cfg.raise_exit, "exception")):
                bad = F.W.worlds_with(ex, lambda w, ln=ln: ("held", ln)
                                      in w)
                run.ob("R-LOCK-PAIR", "%s#%s-released-on-%s" % (
                    F.q, ln, what), not bad,
                    "%s is acquired by hand and still held at the %s exit "
                    "(%s): every later caller waits for it for ever" % (
                        ln, what, path_str(F.W.trace(ex, bad[0])[-8:], 8)
                        if bad else ""), where(mod, F.fn))
    # one hold of the lock per sequence: after a release nothing more of
    # the sequence is transmitted (no release / re-acquire in the middle)
    for F in sorted(fns.values(), key=lambda f: f.q):
        if F.name != "run_sequence":
            continue
        mod = repo.mod(F.cls.mod)
        sends = [n for n in F.cfg.reachable if n.ast is not None and
                 n.kind == "stmt" and ("seq.send(" in unparse(n.ast, 400) or
                                       "seq.throw(" in unparse(n.ast, 400))]
        if not sends:
            continue
        sid = {n.id for n in sends}
        bad = None
        for n in F.cfg.reachable:
            if not any(k == "release" and ln == TL
                       for (k, ln) in lock_events(n)):
                continue
            seen, stack = set(), [m for (l, m) in n.succ]
            while stack and bad is None:
                x = stack.pop()
                if x.id in seen:
                    continue
                seen.add(x.id)
                if x.id in sid:
                    bad = (n, x)
                    break
                stack += [m for (l, m) in x.succ]
        run.ob("R-LOCK-PAIR", F.q + "#one-hold-per-sequence", bad is None,
               "transaction_lock is released at line %s while the sequence "
               "is still running (it is advanced again at line %s): another "
               "caller's frames can appear between two commands of the "
               "sequence" % ((bad[0].lineno, bad[1].lineno) if bad else
                             ("", "")), where(mod, bad[0] if bad else F.fn))
    # cleanup order: nothing that can fail runs before the release
    for F in sorted(fns.values(), key=lambda f: f.q):
        mod = repo.mod(F.cls.mod)
        for t in ast.walk(F.fn):
            if not isinstance(t, ast.Try) or not t.finalbody:
                continue

            def releases(s_):
                return any(isinstance(c_, ast.Call) and isinstance(
                    c_.func, ast.Attribute) and c_.func.attr == "release"
                    and unparse(c_.func.value).endswith(TL)
                    for c_ in ast.walk(s_))
            idx = [i for i, s_ in enumerate(t.finalbody) if releases(s_)]
            if not idx:
                continue
            before = t.finalbody[:idx[0]]
            risky = [c_ for s_ in before for c_ in ast.walk(s_)
                     if isinstance(c_, ast.Call) and not unparse(
                         c_.func).split(".")[0] in ("_LOG",) and
                     "._log." not in unparse(c_.func) and
                     not unparse(c_.func).startswith("self._log.")]
            run.ob("R-LOCK-PAIR", F.q + "#release-before-other-cleanup",
                   not risky,
                   "`%s` runs before transaction_lock.release() in the "
                   "cleanup: if it raises (a sequence that refuses to "
                   "close, a callback that fails) the lock is never "
                   "released and every later caller blocks for ever" % (
                       unparse(risky[0]) if risky else ""),
                   where(mod, t.finalbody[0]))
    # seq.close()
    for F in sorted(fns.values(), key=lambda f: f.q):
        if F.name != "run_sequence":
            continue
        mod = repo.mod(F.cls.mod)
        if not any("seq.send" in unparse(n.ast) for n in F.cfg.reachable
                   if n.ast is not None and n.kind == "stmt"):
            continue

        def tr(node, st):
            if node.kind == "stmt" and node.ast is not None:
                t = unparse(node.ast)
                if "seq.send(" in t:
                    st = st | {"started"}
                if t == "seq.close()":
                    st = st | {"closed"}
            return st
        W = lock_worlds(F.cfg, extra_transfer=tr)
        for ex, what in ((F.cfg.exit, "normal"), (F.cfg.raise_exit,
                                                  "exception")):
            bad = W.worlds_with(ex, lambda w: "started" in w
                                and "closed" not in w)
            run.ob("R-LOCK-PAIR", "%s#seq-closed-on-%s-exit" % (F.q, what),
                   not bad,
                   "the running sequence is not closed on a %s exit" % what,
                   where(mod, F.fn))



def _held_must(F, node):
    ws = F.W.at(node)
    if not ws:
        return set()
    common = None
    for w in ws:
        h = {f for f in w if isinstance(f, tuple) and f[0] == "held"}
        common = h if common is None else common & h
    return common or set()


def _held_at(world, fns, callers, F, node, depth, seen):
    """Is transaction_lock held whenever `node` of F executes?"""
    if depth > 6:
        return False, "call chain too deep at %s" % F.q
    ws = F.W.at(node)
    if not ws:
        return True, "unreachable"
    need_callers = False
    for w in ws:
        if ("held", TL) in w:
            continue
        if ("cond", "in_transaction", True) in w:
            continue    # discharged by the who-may-call check below
        need_callers = True
    intrans = any(("cond", "in_transaction", True) in w and
                  ("held", TL) not in w for w in ws)
    notes = []
    if intrans:
        ok, why = _in_transaction_callers_hold(world, fns, callers, F, depth,
                                               seen)
        if not ok:
            return False, why
        notes.append("in_transaction=True callers hold the lock")
    if not need_callers:
        return True, "held in %s%s" % (F.q, (" (" + "; ".join(notes) + ")")
                                       if notes else "")
    key = (F.cls, F.name)
    cs = _callers_of(fns, callers, F)
    if not cs:
        return False, "%s writes without the lock and has no in-repo " \
            "caller that takes it" % F.q
    chains = []
    for (G, call) in cs:
        if (G.q, id(call)) in seen:
            continue
        seen = seen | {(G.q, id(call))}
        n2 = G.node_of(call)
        if n2 is None:
            return False, "call site of %s in %s not found" % (F.q, G.q)
        ok, why = _held_at(world, fns, callers, G, n2, depth + 1, seen)
        if not ok:
            return False, "%s <- %s" % (F.q, why)
        chains.append(G.q)
    return True, "held by callers %s" % sorted(set(chains))


def _callers_of(fns, callers, F):
    out = []
    for (k, name), lst in callers.items():
        if name != F.name:
            continue
        # virtual dispatch: a call resolved to any class of F's family with
        # this method name may reach F
        if k is F.cls or F.cls in k.mro or k in F.cls.mro:
            for item in lst:
                if item not in out:
                    out.append(item)
    return out


def _in_transaction_callers_hold(world, fns, callers, F, depth, seen):
    """Every in-repo call of F passing in_transaction=True holds the lock."""
    for (G, call) in _callers_of(fns, callers, F):
        kw = {k.arg: k.value for k in call.keywords}
        v = kw.get("in_transaction")
        if v is None:
            continue
        if isinstance(v, ast.Constant) and v.value is False:
            continue
        n2 = G.node_of(call)
        if n2 is None:
            return False, "call site in %s not found" % G.q
        if isinstance(v, ast.Constant) and v.value is True:
            ok, why = _held_at(world, fns, callers, G, n2, depth + 1, seen)
            if not ok:
                return False, "%s passes in_transaction=True without " \
                    "holding the lock (%s)" % (G.q, why)
        else:
            # forwarded parameter: G's own obligation covers it if the
            # argument is G's in_transaction parameter
            if not (isinstance(v, ast.Name) and v.id == "in_transaction"):
                return False, "%s passes a computed in_transaction" % G.q
    return True, ""


def _check_handshake(world, fns, callers, F, call):
    """Exempt functions must be reachable only from connect-time code."""
    cs = _callers_of(fns, callers, F)
    names = {G.name for (G, _) in cs}
    if F.name == "_handle_read":
        # the write must sit under the MODE_INFO branch
        node = F.node_of(call)
        ok = any(("cond", "data[0] == self._MODE_INFO", True) in w
                 for w in F.W.at(node)) and all(
            ("cond", "data[0] == self._MODE_INFO", True) in w
            for w in F.W.at(node))
        return ok, "write not under the MODE_INFO (handshake reply) branch"
    allowed = {"connect", "_initialise_device"}
    if not names:
        return False, "no caller found"
    if not names <= allowed:
        return False, "called from %s" % sorted(names - allowed)
    # in connect(): the call precedes the `connected` event being set
    for (G, c2) in cs:
        if G.name != "connect":
            continue
        n2 = G.node_of(c2)

        def tr(node, st):
            if node.kind == "stmt" and node.ast is not None and unparse(
                    node.ast) in ("self._connected.set()",
                                  "self.connected.set()"):
                return st | {"connected"}
            return st
        W = lock_worlds(G.cfg, extra_transfer=tr)
        if any("connected" in w for w in W.at(n2)):
            return False, "called after connected is set in %s" % G.q
    return True, ""


# ---------------------------------------------------------------------------
def _transmit_calls(world, F):
    """Calls in F that transmit a command object: self._send_raw(x),
    self.send(x, ...), self._protocol.send_dali_command(x)."""
    out = []
    for call in call_sites(F.fn):
        f = call.func
        if not isinstance(f, ast.Attribute):
            continue
        if f.attr in ("_send_raw", "send_dali_command") or (
                f.attr == "send" and unparse(f.value) == "self"):
            if call.args:
                out.append(call)
    return out


def _is_edt_of(world, modname, arg, cmdvar):
    """arg is EnableDeviceType(<cmdvar>.devicetype)"""
    if isinstance(arg, ast.Call) and len(arg.args) == 1 and unparse(
            arg.args[0]) == cmdvar + ".devicetype":
        c = world.resolve_class(modname, arg.func)
        return c is not None and c.qname == \
            "dali.gear.general.EnableDeviceType"
    return False


def _check_edt(run, repo, world, fns):
    run.rule("R-EDT", "every transmission of a caller-supplied command is "
             "immediately preceded by EnableDeviceType(c.devicetype) when "
             "c.devicetype != 0, inside the same critical section")
    entries = [F for F in fns.values() if F.name in ("send", "run_sequence")
               and _transmit_calls(world, F)]
    run.floor("public transmit entry points", len(entries), 5)
    for F in sorted(entries, key=lambda f: f.q):
        mod = repo.mod(F.cls.mod)
        calls = _transmit_calls(world, F)
        # the caller-supplied command variable
        if F.name == "send":
            cmdvars = [F.fn.args.args[1].arg]
        else:
            cmdvars = []
            for n in ast.walk(F.fn):
                if isinstance(n, ast.Assign) and "seq.send(" in unparse(
                        n.value) and isinstance(n.targets[0], ast.Name):
                    cmdvars.append(n.targets[0].id)
        # a transmission happens where its coroutine is awaited: one per
        # statement, awaited where it is created (handed to gather() /
        # create_task() the prefix and the command run side by side, and a
        # failure of one leaves the other on the wire on its own)
        par_ = {}
        for x_ in ast.walk(F.fn):
            for ch_ in ast.iter_child_nodes(x_):
                if not isinstance(ch_, ast.expr_context):
                    par_[id(ch_)] = x_
        is_async = isinstance(F.fn, ast.AsyncFunctionDef)
        tnodes = {}
        for c in calls:
            n = F.node_of(c)
            if n is not None:
                if is_async:
                    run.ob("R-EDT", "%s#awaited-where-called" % F.q,
                           isinstance(par_.get(id(c)), ast.Await) and
                           n.id not in tnodes,
                           "`%s` is not awaited on its own where it is "
                           "called (%s): it runs concurrently with the "
                           "other transmission of the statement, so the "
                           "device-type prefix and its command are no "
                           "longer one after the other" % (
                               unparse(c, 60), unparse(
                                   par_.get(id(c)), 60)[:60]),
                           where(mod, c))
                tnodes[n.id] = c
        for cv in cmdvars:
            def tr(node, st, cv=cv):
                c = tnodes.get(node.id)
                if c is None:
                    return st
                a0 = c.args[0]
                if _is_edt_of(world, F.cls.mod, a0, cv):
                    if ("held", TL) in st or ("cond", "in_transaction",
                                              True) in st:
                        return (st - {"other-tx"}) | {"edt"}
                    # sent outside the critical section of the command it
                    # is meant for: anything can get in between
                    return (st - {"edt"}) | {"other-tx"}
                if unparse(a0) == cv:
                    return st - {"edt"}
                return (st - {"edt"}) | {"other-tx"}
            W = lock_worlds(F.cfg, extra_transfer=tr)
            for nid, c in tnodes.items():
                if unparse(c.args[0]) != cv:
                    continue
                node = [n for n in F.cfg.reachable if n.id == nid][0]
                bad = []
                for w in W.at(node):
                    dt0 = ("cond", "%s.devicetype == 0" % cv, True) in w
                    if dt0 or "edt" in w:
                        continue
                    if ("cond", "in_transaction", True) in w:
                        # the caller holding the transaction is then
                        # responsible - but only if it actually prefixes:
                        # checked at the caller (run_sequence)
                        if _callers_prefix(world, fns, F):
                            continue
                    bad.append(w)
                held = all(("held", TL) in w or ("cond", "in_transaction",
                                                 True) in w
                           for w in W.at(node))
                run.ob("R-EDT", "%s#transmit(%s)" % (F.q, cv),
                       not bad and held,
                       "`%s` is transmitted on a path where its device type "
                       "may be non-zero and no EnableDeviceType(%s.devicetype) "
                       "was sent immediately before: %s" % (
                           cv, cv, path_str(W.trace(node, bad[0])[-8:], 8)
                           if bad else "not under the lock"),
                       where(mod, c),
                       sample={"rule": "R-EDT", "entry": F.q,
                               "transmit": unparse(c)[:80],
                               "worlds": len(W.at(node))})


def _check_single_write(run, repo, world, fns):
    """The unit R-EDT counts as one transmission puts one frame on the wire:
    a transmit function that writes twice on some path (a retry below the
    level where the device-type prefix is added) sends the command a second
    time with its own first copy in front of it, not the prefix."""
    from ..cfg import forward
    n = 0
    for F in sorted(fns.values(), key=lambda f: f.q):
        if F.name not in ("_send_raw", "send_dali_command"):
            continue
        wn = set()
        for call in call_sites(F.fn):
            if is_wire_write(call):
                node = F.node_of(call)
                if node is None:
                    raise AnalysisError("write site not found in CFG of %s"
                                        % F.q)
                wn.add(node.id)
        if not wn:
            continue
        n += 1

        # a gateway without a send-twice flag of its own is written to
        # twice for a send-twice command: writes governed by `sendtwice`
        # (a test, a repeat count derived from it) are the one transmission
        tw = {"sendtwice"}
        for x in ast.walk(F.fn):
            if isinstance(x, ast.Assign) and len(x.targets) == 1 and \
                    isinstance(x.targets[0], ast.Name) and any(
                        isinstance(y, ast.Attribute) and y.attr ==
                        "sendtwice" for y in ast.walk(x.value)):
                tw.add(x.targets[0].id)

        def governed(call):
            par = {}
            for x in ast.walk(F.fn):
                for ch in ast.iter_child_nodes(x):
                    par[id(ch)] = x
            cur = call
            while id(cur) in par:
                up = par[id(cur)]
                g = up.test if isinstance(up, (ast.If, ast.While,
                                               ast.IfExp)) else (
                    up.iter if isinstance(up, ast.For) else None)
                if g is not None and cur is not g and any(
                        (isinstance(y, ast.Attribute) and y.attr in tw) or
                        (isinstance(y, ast.Name) and y.id in tw)
                        for y in ast.walk(g)):
                    return True
                cur = up
            return False
        site = {}
        for call in call_sites(F.fn):
            if is_wire_write(call):
                site[F.node_of(call).id] = governed(call)

        def tr(node, st):
            # a second, different write site after a first one; the same
            # site met again (a repeat loop) is not told apart from the
            # send-twice repetition and is left alone
            if node.id in wn and not site[node.id]:
                if any(isinstance(f_, tuple) and f_[0] == "wrote" and
                       f_[1] != node.id for f_ in st):
                    return st | {"w2"}
                return st | {("wrote", node.id)}
            return st
        IN = forward(F.cfg, tr, must=False)
        twice = [nd for nd in F.cfg.reachable if "w2" in tr(
            nd, IN.get(nd.id, frozenset()))]
        run.ob("R-EDT", "%s#one-frame-per-transmission" % F.q, not twice,
               "%s can write to the wire twice in one call (second write "
               "at L%s): the repeated command is preceded by its own first "
               "copy, not by the EnableDeviceType frame its caller sent"
               % (F.q, twice[0].lineno if twice else "?"),
               where(repo.mod(F.cls.mod), twice[0].ast if twice and
                     twice[0].ast is not None else F.fn))
    run.floor("transmit functions with a wire write", n, 3)


def _callers_prefix(world, fns, F):
    """For send(in_transaction=True): do the in-repo callers passing True
    send EnableDeviceType first?  (serial run_sequence does.)"""
    ok_any = False
    for G in fns.values():
        if G.name != "run_sequence":
            continue
        if not (G.cls is F.cls or G.cls in F.cls.mro or F.cls in G.cls.mro):
            continue
        for call in call_sites(G.fn):
            if isinstance(call.func, ast.Attribute) and call.func.attr == \
                    "send" and unparse(call.func.value) == "self":
                kw = {k.arg: k.value for k in call.keywords}
                v = kw.get("in_transaction")
                if isinstance(v, ast.Constant) and v.value is True:
                    ok_any = True
    return ok_any


def _check_examples(run, repo):
    """who-may-call for in_transaction=True in examples/."""
    import os
    ex = os.path.join(repo.root, "examples")
    n = 0
    if not os.path.isdir(ex):
        return
    for fn in sorted(os.listdir(ex)):
        if not fn.endswith(".py"):
            continue
        try:
            tree = ast.parse(open(os.path.join(ex, fn)).read())
        except SyntaxError:
            continue
        for node in ast.walk(tree):
            for ch in ast.iter_child_nodes(node):
                if not isinstance(ch, ast.expr_context):
                    ch._parent = node
        for node in ast.walk(tree):
            if isinstance(node, ast.Call) and any(
                    k.arg == "in_transaction" and isinstance(
                        k.value, ast.Constant) and k.value.value is True
                    for k in node.keywords):
                n += 1
                p = getattr(node, "_parent", None)
                held = False
                while p is not None:
                    if isinstance(p, ast.AsyncWith) and any(
                            "transaction_lock" in unparse(i.context_expr)
                            for i in p.items):
                        held = True
                    p = getattr(p, "_parent", None)
                run.ob("R-LOCK-SET", "examples/%s#in_transaction" % fn, held,
                       "example passes in_transaction=True outside "
                       "`async with ...transaction_lock`",
                       "examples/%s:%s" % (fn, node.lineno))
    run.analysed["examples in_transaction=True call sites"] = n
