"""C12 - event messages: scheme discrimination and field lanes (from the
codec interpreter's decode leaves), instance-type registry, push-button code
table, occupancy validity mask, map resolution, retry, mapper key
normalisation."""
import ast

from ..core import AnalysisError, unparse, where
from ..fold import Folder
from ..front import ClassInfo
from .. import cmdtable
from ..codec import (Raise, Obj, AFrame, Ref, AInt, ABool, Cmp, lane_val,
                     lanes_of)
from ..codec_run import decode_all, frame_of, lanes_match, cube_str

DG = "dali.device.general"
HLP = "dali.device.helpers"

# IEC 62386-103 Table 3 (event scheme / source identification), transcribed:
# (bit23, bit22, bit15) -> scheme, {field: (hi, lo)}
SCHEMES = {
    (0, None, 0): ("device", {"short_address": (22, 17),
                              "instance_type": (14, 10)}),
    (0, None, 1): ("device/instance", {"short_address": (22, 17),
                                       "instance_number": (14, 10)}),
    (1, 0, 0): ("device group", {"device_group": (21, 17),
                                 "instance_type": (14, 10)}),
    (1, 0, 1): ("instance", {"instance_type": (21, 17),
                             "instance_number": (14, 10)}),
    (1, 1, 0): ("instance group", {"instance_group": (21, 17),
                                   "instance_type": (14, 10)}),
}
INSTANCE_TYPES = {1: "dali.device.pushbutton", 3: "dali.device.occupancy",
                  4: "dali.device.light"}


def _field_lanes(hi, lo):
    return [("in", j) for j in range(lo, hi + 1)]


def _val_lanes(st, v, width):
    if v is None:
        return None
    if isinstance(v, Ref):
        o = st.d(v)
        if isinstance(o, Obj) and "address" in o.f:
            v = o.f["address"]
    ls = list(lanes_of(v, width))
    return (ls + [0] * width)[:width]


def _scheme_bits_of(st):
    """Bits (23, 22, 15) of the frames of a leaf; when the leaf is the
    'no entry matched' world of a table lookup the bits are only known
    through what they are not, so the combinations still possible are
    enumerated."""
    b = (lane_val(st, ("in", 23)), lane_val(st, ("in", 22)),
         lane_val(st, ("in", 15)))
    if None not in b:
        return b
    import itertools
    from ..codec import assume, satisfiable
    cands = []
    for combo in itertools.product((0, 1), repeat=3):
        s2 = st.fork()
        if all(assume(s2, ("in", bit), v)
               for bit, v in zip((23, 22, 15), combo)) and satisfiable(s2):
            cands.append(combo)
    return cands[0] if len(cands) == 1 else b


def check(run, repo, world):
    run.explanation = (
        "The decode leaves of the codec interpreter for 24-bit frames with "
        "bit 16 = 0 (all 2^23 event-space frames at once, without a map, "
        "with a map answering None, with a map answering any instance "
        "type) are compared with IEC 62386-103 Table 3 transcribed here: "
        "the scheme is selected by bits 23/22/15, each source field of the "
        "decoded event is exactly the frame lanes the scheme assigns to it, "
        "fields the scheme does not carry are None, the 10 data lanes are "
        "carried unchanged into known, unknown and ambiguous events; the "
        "class is chosen by the instance type (registry 1/3/4 from the "
        "interpreted registration code), push-button codes by the "
        "transcribed Part 301 table, occupancy exactly when data bits 9:4 "
        "are zero with flags on lanes 0..3, light with all ten lanes; "
        "device/instance frames resolve through the map exactly as if the "
        "type were in the frame and are ambiguous exactly when the map has "
        "no entry; retry_decode is a single decode of the stored frame with "
        "the given map; mapper keys are normalised identically by add_type "
        "and get_type.")
    run.assumptions += ["the interpreted subset of codec.py"]
    folder = Folder(world)
    rx = cmdtable.registries(world, folder)
    ev = world.cls(DG + "._Event")
    mod = repo.mod(DG)
    run.rule("R-EVT-SCHEME", "scheme bits and field lanes == Table 3; "
             "fields not in the scheme are None; data lanes carried")
    run.rule("R-EVT-CLASS", "event class chosen by instance type and data")
    spec = cmdtable.load_spec()
    pb_codes = {r["code"]: r["name"] for r in spec["301 events"]}
    n_ev = 0
    for mm in ("nomap", "none", "type"):
        I, res = decode_all(world, rx, folder, 24, mm)
        for (v, st) in res:
            if isinstance(v, Raise):
                if lane_val(st, ("in", 16)) == 0:
                    run.ob("R-EVT-SCHEME", "%s#raise:%s" % (
                        mm, str(v.exc)[:50]), False,
                        "decoding an event message raises `%s` for frames "
                        "with %s: every event frame must come back as an "
                        "event object (unknown type / information -> "
                        "generic event)" % (v.exc, cube_str(st)),
                        where(mod, ev.node))
                continue
            if not isinstance(v, Ref):
                continue
            o = st.d(v)
            if not isinstance(o, Obj) or o.cls is None or ev not in o.cls.mro:
                # non-event result for an event-space frame?
                if lane_val(st, ("in", 16)) == 0:
                    b = _scheme_bits_of(st)
                    ok = b == (1, 1, 1)
                    run.ob("R-EVT-SCHEME", "%s#non-event:%s" % (mm, b), ok,
                           "a frame with bit 16 = 0 and scheme bits "
                           "(23,22,15) = %s decodes to %s instead of an "
                           "event" % (b, o.cls.name if isinstance(o, Obj)
                                      and o.cls else o), where(mod, ev.node),
                           trivial=True)
                continue
            n_ev += 1
            key = "%s/%s" % (mm, o.cls.name)
            b23, b22, b15 = (lane_val(st, ("in", 23)),
                             lane_val(st, ("in", 22)),
                             lane_val(st, ("in", 15)))
            sch = SCHEMES.get((b23, b22 if b23 else None, b15))
            if lane_val(st, ("in", 16)) != 0 or sch is None:
                run.ob("R-EVT-SCHEME", key + "#scheme", False,
                       "event %s decoded for scheme bits (23,22,15,16) = %s"
                       % (o.cls.name, (b23, b22, b15, lane_val(
                           st, ("in", 16)))), where(mod, ev.node))
                continue
            sname, fields = sch
            problems = []
            for fname in ("short_address", "instance_number",
                          "instance_group", "device_group"):
                got = o.f.get("_" + fname)
                if fname in fields:
                    hi, lo = fields[fname]
                    gl = _val_lanes(st, got, hi - lo + 1)
                    if gl is None or lanes_match(st, gl,
                                                 _field_lanes(hi, lo)):
                        problems.append("%s = %r, expected frame bits "
                                        "%d:%d" % (fname, got, hi, lo))
                elif got is not None:
                    problems.append("%s = %r although the %s scheme does "
                                    "not carry it" % (fname, got, sname))
            # instance type
            it = o.f.get("_instance_type")
            if it is None and o.cls.lookup("_instance_type") is not None:
                it = folder.class_attr(o.cls, "_instance_type")
            if "instance_type" in fields:
                hi, lo = fields["instance_type"]
                gl = _val_lanes(st, it, 5) if it is not None else None
                if gl is None or lanes_match(st, gl, _field_lanes(hi, lo)):
                    problems.append("instance type %r does not equal frame "
                                    "bits %d:%d" % (it, hi, lo))
            elif o.cls.name != "AmbiguousInstanceType":
                # device/instance: the type came from the map
                itv = st.cube.get(("symv", "it"))
                if isinstance(it, int) and itv is not None and it != itv:
                    problems.append("instance type %r differs from the "
                                    "map's answer %r" % (it, itv))
            # what the map was asked: the frame's own short address and
            # instance number (all six / five bits)
            if sname == "device/instance" and mm in ("none", "type"):
                keys = [n_ for n_ in st.notes if isinstance(n_, tuple)
                        and n_ and n_[0] == "mapkey"]
                if not keys:
                    problems.append("the map was not asked for this "
                                    "device/instance frame")
                for (_k, ksa, kin) in keys:
                    for (kv, fld, w_) in ((ksa, "short_address", 6),
                                          (kin, "instance_number", 5)):
                        hi, lo = fields[fld]
                        gl = _val_lanes(st, kv, w_)
                        if gl is None or lanes_match(
                                st, gl, _field_lanes(hi, lo)):
                            problems.append(
                                "the map is asked with %s = %r, not frame "
                                "bits %d:%d" % (fld, kv, hi, lo))
            # event data lanes
            data = _event_data_lanes(st, o)
            if data is None and o.cls.name in ("UnknownEvent",
                                               "AmbiguousInstanceType"):
                problems.append("the generic event does not carry its ten "
                                "event-information bits (event_data is "
                                "undefined)")
            if data is not None:
                e = lanes_match(st, data, _field_lanes(9, 0))
                if e:
                    problems.append("event data lanes %s differ from frame "
                                    "bits 9:0" % e[:3])
            run.ob("R-EVT-SCHEME", "%s#%s" % (key, sname), not problems,
                   "; ".join(problems) + " (case %s)" % cube_str(st),
                   where(repo.mod(o.cls.mod), o.cls.node),
                   sample={"rule": "R-EVT-SCHEME", "mode": mm,
                           "class": o.cls.name, "scheme": sname,
                           "cube": cube_str(st)}
                   if o.cls.name in ("LightEvent", "ShortPress") and
                   sname == "device group" else None)
            # class selection
            cprob = _class_problem(world, folder, st, o, fields, pb_codes, mm)
            run.ob("R-EVT-CLASS", "%s#%s" % (key, sname), cprob is None,
                   "%s (case %s)" % (cprob, cube_str(st)),
                   where(repo.mod(o.cls.mod), o.cls.node))
            # ambiguity
            if o.cls.name == "AmbiguousInstanceType":
                ok = sname == "device/instance" and mm in ("nomap", "none")
                run.ob("R-EVT-CLASS", "%s#ambiguous" % mm, ok,
                       "a frame is reported ambiguous although %s" % (
                           "its scheme carries the instance type"
                           if sname != "device/instance" else
                           "the map has an entry for it (answer %s)"
                           % st.cube.get(("symv", "it"))),
                       where(mod, ev.node))
            elif sname == "device/instance" and mm in ("nomap", "none"):
                run.ob("R-EVT-CLASS", "%s#not-ambiguous" % mm, False,
                       "a device/instance frame decodes to %s without any "
                       "instance-type information" % o.cls.name,
                       where(mod, ev.node))
        run.count(len(res))
    run.floor("event decode leaves", n_ev, 90)

    # ---- what a caller reads is what the decoder stored ------------------------
    # the leaf comparison above looks at the fields the decoder sets; the
    # public accessors hand exactly those out ("all others None": an
    # accessor that turns None into 0 reports a field the scheme does not
    # carry)
    run.rule("R-EVT-ACCESS", "the source-field accessors of an event return "
             "the stored field unchanged")
    from .. import paths as _pth
    n_acc = 0
    for fld in ("short_address", "device_group", "instance_number",
                "instance_type", "instance_group"):
        for k_ in [x for x in world.class_order if ev in x.mro]:
            if fld not in k_.methods:
                continue
            kind_, f_ = k_.methods[fld]
            if kind_ != "property":
                continue
            n_acc += 1
            try:
                ps_ = _pth.summaries(f_)
            except _pth.Unsupported as e_:
                raise AnalysisError("%s.%s: %s" % (k_.qname, fld, e_))
            ok_ = bool(ps_) and all(
                p_.kind == "return" and p_.expr is not None and unparse(
                    p_.expr) in ("self._" + fld,
                                 "getattr(self, '_%s')" % fld,
                                 "getattr(self, '_%s', None)" % fld)
                for p_ in ps_)
            run.ob("R-EVT-ACCESS", "%s.%s" % (k_.qname, fld), ok_,
                   "%s.%s returns %s, not the stored field self._%s as it "
                   "is: a field the frame's scheme does not carry must read "
                   "None" % (k_.name, fld, sorted({
                       unparse(p_.expr, 50) if p_.expr is not None
                       else p_.kind for p_ in ps_}), fld),
                   where(repo.mod(k_.mod), f_))
    run.floor("event source-field accessors", n_acc, 5)

    # ---- registry ---------------------------------------------------------------
    run.rule("R-EVT-REG", "instance type registry 1/3/4; module constants")
    o = rx.obj(ev)
    reg = o.ns.get("_instance_types")
    got = {k: v.info.mod for k, v in (reg or {}).items() if k is not None}
    run.ob("R-EVT-REG", DG + "._Event._instance_types", got ==
           INSTANCE_TYPES, "instance-type registry %s, IEC 62386-103 Table 4 "
           "assigns %s" % (got, INSTANCE_TYPES), where(mod, ev.node),
           sample={"rule": "R-EVT-REG", "registry": got})
    # a device module can be handed to the mapper's add_type in place of the
    # number: the attribute add_type reads off it must exist in every module
    # that registers an instance type, with that type as its value
    mp_ = world.cls(HLP + ".DeviceInstanceTypeMapper")
    at_ = mp_.methods["add_type"][1] if mp_ is not None and \
        "add_type" in mp_.methods else None
    if at_ is None:
        raise AnalysisError("DeviceInstanceTypeMapper.add_type vanished")
    tparam = None
    for a_ in at_.args.args + at_.args.kwonlyargs:
        if "type" in a_.arg and a_.arg != "self":
            tparam = a_.arg
    names_ = {x.args[1].value for x in ast.walk(at_) if isinstance(
        x, ast.Call) and unparse(x.func) in ("hasattr", "getattr") and len(
            x.args) >= 2 and unparse(x.args[0]) == tparam and isinstance(
                x.args[1], ast.Constant) and isinstance(
                    x.args[1].value, str)}
    if len(names_) != 1:
        raise AnalysisError("add_type: the attribute read off a module "
                            "argument is not one constant name (%s)"
                            % sorted(names_))
    aname = names_.pop()
    for k_, modname_ in sorted((reg and got or {}).items()):
        b_ = world.lookup(modname_, aname)
        v_ = folder.eval(b_.value, {}, modname_) if b_ is not None and \
            getattr(b_, "kind", None) == "expr" else None
        run.ob("R-EVT-REG", "%s.%s" % (modname_, aname), v_ == k_,
               "module %s registers instance type %s but its `%s` (what "
               "DeviceInstanceTypeMapper.add_type reads when the module is "
               "given as the type) is %r: a map cannot be built from the "
               "module" % (modname_, k_, aname, v_),
               where(repo.mod(modname_), repo.mod(modname_).tree))
    occ = world.cls("dali.device.occupancy.OccupancyEvent")
    fed = occ.methods["from_event_data"][1]
    # valid exactly when bits 9:4 are zero: the function's paths, with the
    # tests folded for each of the 1024 possible values of the 10 data bits
    from .. import paths as _paths
    from ..fold import UNKNOWN as _UNK
    dparam = fed.args.args[1].arg
    try:
        fps = _paths.summaries(fed)
    except _paths.Unsupported as e:
        raise AnalysisError("R-EVT-REG: OccupancyEvent.from_event_data is "
                            "not loop-free: %s" % e)
    wrong = []
    for v in range(1024):
        got = "undecided"
        for p_ in fps:
            holds = True
            for (t_, b_) in p_.conds:
                from ..fold import ClassRef as _CR
                r_ = folder.eval(t_, {dparam: v, "cls": _CR(occ),
                                      "self": _CR(occ)}, occ.mod)
                if r_ is _UNK:
                    raise AnalysisError(
                        "R-EVT-REG: cannot fold `%s` for %s=%d" % (
                            unparse(t_), dparam, v))
                if bool(r_) != b_:
                    holds = False
                    break
            if holds:
                if p_.kind == "return" and p_.expr is not None and not (
                        isinstance(p_.expr, ast.Constant) and
                        p_.expr.value is None):
                    c_ = world.resolve_class(occ.mod, p_.expr)
                    got = c_.qname if c_ is not None else unparse(p_.expr)
                elif p_.kind == "raise":
                    got = "raise"
                else:
                    got = None
                break
        want_ = occ.qname if v < 16 else None
        if got != want_:
            wrong.append((v, got))
    run.count(1024)
    run.ob("R-EVT-REG", occ.qname + ".from_event_data", not wrong,
           "occupancy data is valid exactly when bits 9:4 are zero; for "
           "data %s the decoder class is %s" % (
               [w[0] for w in wrong[:6]], [w[1] for w in wrong[:6]]),
           where(repo.mod(occ.mod), fed))

    # ---- retry ------------------------------------------------------------------
    run.rule("R-EVT-RETRY", "retry_decode == one decode of the stored frame "
             "with the given map")
    amb = world.cls(DG + ".AmbiguousInstanceType")
    rfn = amb.methods["retry_decode"][1]
    calls = [c for c in ast.walk(rfn) if isinstance(c, ast.Call) and unparse(
        c.func).endswith("from_frame")]
    ok = len(calls) == 1
    ctext = None
    if ok:
        c = calls[0]
        ctext = unparse(c, 400)
        kw = {k.arg: unparse(k.value) for k in c.keywords}
        ok = unparse(c.args[0]) == "self.frame" and kw.get(
            "dev_inst_map") == rfn.args.args[1].arg and kw.get(
                "devicetype") in ("self.devicetype", "0", None)
    # outcome per path: the decoded event unless it is still ambiguous
    shape = ok
    if ok:
        try:
            rps = _paths.summaries(rfn)
        except _paths.Unsupported as e:
            raise AnalysisError("R-EVT-RETRY: retry_decode is not loop-free: "
                                "%s" % e)
        for p_ in rps:
            amb_ = None
            for (t_, b_) in p_.conds:
                if isinstance(t_, ast.Call) and unparse(
                        t_.func) == "isinstance" and len(
                            t_.args) == 2 and unparse(
                                t_.args[0], 400) == ctext:
                    k_ = world.resolve_class(DG, t_.args[1])
                    if k_ is not None and k_.qname == amb.qname:
                        amb_ = b_
                        continue
                shape = False      # some other condition decides
            if amb_ is None:
                shape = False
            elif amb_:
                shape = shape and (p_.kind == "fall" or (
                    p_.kind == "return" and (p_.expr is None or (
                        isinstance(p_.expr, ast.Constant) and
                        p_.expr.value is None))))
            else:
                shape = shape and p_.kind == "return" and \
                    p_.expr is not None and unparse(p_.expr, 400) == ctext
    run.ob("R-EVT-RETRY", amb.qname + ".retry_decode", ok and shape,
           "retry_decode must decode self.frame once with the given map and "
           "return the result unless it is still ambiguous",
           where(mod, rfn))

    # ---- mapper keys ---------------------------------------------------------------
    run.rule("R-EVT-MAP", "add_type and get_type normalise (short address, "
             "instance number) identically; _mapping has no other writer")
    mp = world.cls(HLP + ".DeviceInstanceTypeMapper")
    hmod = repo.mod(HLP)

    from .. import paths
    from ..normal import normalise

    def summarise(fn, want):
        """{frozenset of isinstance outcomes: (key text, value text)}"""
        fn2 = normalise(fn, world, HLP, mp, aliases=False)
        from ..normal import lift_nested_values
        fn2 = lift_nested_values(fn2)
        out = {}
        for p_ in paths.summaries(fn2):
            conds = frozenset((unparse(t, 200), b) for (t, b) in p_.conds
                              if unparse(t).startswith("isinstance("))
            other = [(unparse(t, 200), b) for (t, b) in p_.conds
                     if not unparse(t).startswith("isinstance(")]
            key = val = None
            if want == "store":
                for (tg, v) in p_.effects:
                    if tg.startswith("self._mapping["):
                        key, val = tg[len("self._mapping["):-1], unparse(v,
                                                                         200)
            else:
                e = p_.expr
                if p_.kind == "return" and isinstance(e, ast.Call) and \
                        unparse(e.func) == "self._mapping.get" and (
                            len(e.args) == 1 or unparse(e.args[1]) == "None"):
                    key = unparse(e.args[0], 200)
            out[(conds, tuple(other))] = (key.strip("()") if key else None,
                                          val)
        return out
    a, g = mp.methods["add_type"][1], mp.methods["get_type"][1]
    sa, sg = summarise(a, "store"), summarise(g, "get")
    # per combination of isinstance outcomes on the two key parts
    ka = {}
    for (conds, other), (key, val) in sa.items():
        kc = frozenset(c for c in conds if "instance_type" not in c[0]
                       or "instance_type," not in c[0])
        kc = frozenset(c for c in conds if c[0].startswith(
            "isinstance(short_address") or c[0].startswith(
                "isinstance(instance_number"))
        ka.setdefault(kc, set()).add(key)
    kg = {}
    for (conds, other), (key, val) in sg.items():
        kc = frozenset(c for c in conds if c[0].startswith(
            "isinstance(short_address") or c[0].startswith(
                "isinstance(instance_number"))
        kg.setdefault(kc, set()).add(key)
    want_keys = {
        frozenset({("isinstance(short_address, DeviceShort)", True),
                   ("isinstance(instance_number, InstanceNumber)", True)}):
        {"short_address.address, instance_number.value"},
        frozenset({("isinstance(short_address, DeviceShort)", True),
                   ("isinstance(instance_number, InstanceNumber)", False)}):
        {"short_address.address, instance_number"},
        frozenset({("isinstance(short_address, DeviceShort)", False),
                   ("isinstance(instance_number, InstanceNumber)", True)}):
        {"short_address, instance_number.value"},
        frozenset({("isinstance(short_address, DeviceShort)", False),
                   ("isinstance(instance_number, InstanceNumber)", False)}):
        {"short_address, instance_number"}}
    run.ob("R-EVT-MAP", mp.qname + "#same-normalisation",
           ka == kg == want_keys,
           "add_type stores under %s; get_type looks up %s; both must turn "
           "a DeviceShort / InstanceNumber into its number and leave an int "
           "as it is" % (_show_keys(ka), _show_keys(kg)), where(hmod, a),
           sample={"rule": "R-EVT-MAP", "keys": _show_keys(ka)})
    # the stored type: int(module.instance_type) or int(value)
    vals = {}
    for (conds, other), (key, val) in sa.items():
        has = [b for (t, b) in other if t ==
               "hasattr(instance_type, 'instance_type')"]
        vals.setdefault(tuple(has), set()).add(val)
    okv = vals in (
        {(True,): {"int(instance_type.instance_type)"},
         (False,): {"int(instance_type)"}},
        {(): {"int(getattr(instance_type, 'instance_type', "
              "instance_type))"}})
    run.ob("R-EVT-MAP", mp.qname + ".add_type#type-normalisation", okv,
           "instance types must be accepted as ints or as modules carrying "
           "`instance_type`; stored values: %s" % vals, where(hmod, a))
    writers = set()
    for name, (kind, f2) in mp.methods.items():
        for n in ast.walk(f2):
            if isinstance(n, ast.Assign) and any(
                    "_mapping" in unparse(tg) for tg in n.targets):
                writers.add(name)
    run.ob("R-EVT-MAP", mp.qname + "#writers",
           writers <= {"__init__", "add_type", "clear"},
           "_mapping is written by %s" % sorted(writers), where(hmod,
                                                                 mp.node))


def _show_keys(k):
    return sorted((sorted("%s%s" % ("" if b else "not ", t) for t, b in c),
                   sorted(str(x) for x in v)) for c, v in k.items())


def _event_data_lanes(st, o):
    """The 10 data lanes the decoded event carries, if it stores them."""
    name = o.cls.name
    if name in ("UnknownEvent", "AmbiguousInstanceType"):
        d = o.f.get("_unhandled_data")
        return _val_lanes(st, d, 10) if d is not None else None
    if name == "LightEvent":
        return _val_lanes(st, o.f.get("_event_info"), 10)
    if name == "OccupancyEvent":
        ed = st.d(o.f.get("_extra_data"))
        if not isinstance(ed, Obj):
            return None
        lanes = []
        for fld in ("movement", "occupied", "repeat"):
            v = ed.f.get(fld)
            if isinstance(v, Cmp) and len(v.pairs) == 1 and not v.neg and \
                    v.pairs[0][1] == 1:
                lanes.append(v.pairs[0][0])
            elif isinstance(v, ABool) and not v.neg:
                lanes.append(v.lane)
            elif isinstance(v, bool):
                lanes.append(int(v))
            else:
                lanes.append("?")
        s = ed.f.get("sensor_type")
        l3 = lane_val(st, ("in", 3))
        lanes.append(("in", 3) if (s == "movement" and l3 == 1) or
                     (s == "presence" and l3 == 0) else "?")
        return lanes + [0] * 6
    # push-button events: the class itself encodes the data
    return None


def _class_problem(world, folder, st, o, fields, pb_codes, mm):
    """Is the decoded class the right one for (instance type, data)?"""
    name = o.cls.name
    if name == "AmbiguousInstanceType":
        return None
    # instance type value
    if "instance_type" in fields:
        hi, lo = fields["instance_type"]
        vals = [lane_val(st, ("in", j)) for j in range(lo, hi + 1)]
        it = sum(v << i for i, v in enumerate(vals)) if all(
            v is not None for v in vals) else None
    else:
        it = st.cube.get(("symv", "it"))
    data_vals = [lane_val(st, ("in", j)) for j in range(10)]
    if it == 1:
        if all(v is not None for v in data_vals):
            code = sum(v << i for i, v in enumerate(data_vals))
            want = pb_codes.get(code, "UnknownEvent")
            if name != want:
                return "push-button code 0x%03X decodes to %s, Part 301 " \
                    "assigns %s" % (code, name, want)
            return None
        if name != "UnknownEvent":
            return "push-button event %s chosen without fixing all ten " \
                "data bits" % name
        return None
    if it == 3:
        high = [lane_val(st, ("in", j)) for j in range(4, 10)]
        if name == "OccupancyEvent":
            if any(v != 0 for v in high):
                return "OccupancyEvent decoded although data bits 9:4 are " \
                    "not all forced to zero (%s)" % high
            return None
        if name == "UnknownEvent":
            if all(v == 0 for v in high):
                return "valid occupancy data decoded as UnknownEvent"
            return None
        return "instance type 3 decoded as %s" % name
    if it == 4:
        return None if name == "LightEvent" else \
            "instance type 4 decoded as %s" % name
    if name != "UnknownEvent":
        return "instance type %s (not implemented) decoded as %s" % (it,
                                                                     name)
    return None
