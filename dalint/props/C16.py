"""C16 - each command gets its own, correctly typed answer: R-RSITE
(response construction sites), R-STAT (gateway status tables vs spec),
R-OWN-ANSWER (answer awaited in the write's serialiser region / keyed by the
write's sequence number), R-FLUSH (stale-answer flush drains the queue it
tests, in a loop)."""
import ast
import json
import os
import struct

from ..core import AnalysisError, unparse, where, VERIF
from ..cfg import (CFG, suspension_may_raise, reaching_defs, defs_reaching,
                   _walk_no_nested, forward)
from ..fold import Folder, UNKNOWN
from ..drv import HID, SER, lock_worlds, call_sites, is_wire_write

DS = "dali.driver.daliserver"
ATX = "dali.driver.atxled"
FRAME_CLASSES = ("dali.frame.BackwardFrame", "dali.frame.BackwardFrameError")


def _spec(name):
    return json.load(open(os.path.join(VERIF, "spec", "wire", name)))


# methods of atxled.py / daliserver.py that exist on the pinned tree: analysed
# as units, never inlined (a helper extracted later is)
OTHER_PRIMITIVES = ("__init__", "read_line", "construct", "extract", "close",
                    "send", "unpack_response", "__enter__", "__exit__",
                    "wait_for_idle")


def _fn(world, cq, name):
    r = world.method(cq, name)
    fn = r[2]
    if r[0].mod in (HID, SER) and any(
            isinstance(n, ast.Attribute) and n.attr == "get" and isinstance(
                n.value, ast.Attribute) and isinstance(
                    n.value.value, ast.Name) and n.value.value.id in (
                        "self", "cls") for n in ast.walk(fn)):
        # handlers picked from a class-level table: the if-chain first, so
        # that the handlers it names are inlined below
        from ..unroll import expand_table_lookups as _etl, \
            class_table_resolver as _ctr
        from ..inline import acopy as _ac
        fx_ = _ac(fn)
        rt_, nn_ = _ctr(world, world.cls(cq), r[0].mod)
        if _etl(fx_, rt_, nn_):
            ast.fix_missing_locations(fx_)
            r = (r[0], r[1], fx_)
            fn = fx_
    if r[0].mod in (HID, SER):
        from ..drv import expand_method
        # serial.py: full alias propagation (guards such as
        # `standalone = not in_transaction` read as the original);
        # hid.py: parameters of inlined helpers only (its rules name locals)
        fn = expand_method(
            world, world.cls(cq), r[2],
            aliases=True if r[0].mod == SER else "params")
    else:
        # other drivers: conditional values written as if/else, helpers
        # inlined
        from ..normal import normalise
        try:
            fn = normalise(fn, world, r[0].mod, world.cls(cq),
                           primitives=OTHER_PRIMITIVES,
                           aliases=False, lift_values=True)
        except AnalysisError:
            fn = r[2]
    # a status -> constructor table reads as the if-chain it abbreviates
    from ..unroll import expand_table_lookups, class_table_resolver
    from ..inline import acopy
    from ..normal import set_parents
    if any(isinstance(n, ast.Attribute) and n.attr == "get"
           for n in ast.walk(fn)):
        fnx = acopy(fn)
        rt, nn = class_table_resolver(world, world.cls(cq), r[0].mod)
        if expand_table_lookups(fnx, rt, nn):
            ast.fix_missing_locations(fnx)
            set_parents(fnx)
            fn = fnx
    return r[0], fn


def check(run, repo, world):
    run.explanation = (
        "(R-RSITE) in every driver send path (Tridonic, hasseb, LUBA, SCI, "
        "daliserver, ATX hat) each value that can be returned for a command "
        "is None or the result of calling that command's own `response` "
        "attribute (which must exist on dali.command.Command) on None / "
        "BackwardFrame(x) / BackwardFrameError(x); (R-STAT) the gateway "
        "status-code chains are extracted (constants folded) and compared "
        "with the hand-transcribed protocol tables, and the fields tested "
        "are the fields unpacked from the gateway report (reaching "
        "definitions); (R-OWN-ANSWER) the await that receives the answer "
        "lies in the same serialiser region as the write, or is keyed by the "
        "sequence number the write used; (R-FLUSH) a stale-answer flush "
        "drains the queue it tests, completely.  NOT decided: which of two "
        "late answers a timing race delivers.")
    run.assumptions += ["spec/wire/*.json are faithful transcriptions",
                        "asyncio.Lock/Semaphore regions exclude other "
                        "senders"]
    folder = Folder(world)
    cmd_cls = world.cls("dali.command.Command")
    sites = 0

    targets = [
        (HID + ".tridonic", "_send_raw", "command"),
        (HID + ".hasseb", "_send_raw", "command"),
        (SER + ".DriverLubaRs232", "send", "msg"),
        (SER + ".DriverSCIRS232", "send", "msg"),
        (DS + ".DaliServer", "unpack_response", "command"),
        (ATX + ".SyncDaliHatDriver", "send", "command"),
    ]
    run.rule("R-RSITE", "returned value is None or <command>.response(None | "
             "BackwardFrame(x) | BackwardFrameError(x))")
    for (cq, mname, cv) in targets:
        owner, fn = _fn(world, cq, mname)
        mod = repo.mod(owner.mod)
        Q = "%s.%s" % (cq, mname)
        params = [a.arg for a in fn.args.args]
        if cv not in params:
            raise AnalysisError("%s lost parameter %s" % (Q, cv))
        for c in call_sites(fn):
            f = c.func
            if not isinstance(f, ast.Attribute):
                continue
            if "esponse" not in f.attr:
                continue
            recv = f.value
            if isinstance(recv, ast.Name) and recv.id == cv:
                sites += 1
                exists = cmd_cls.lookup(f.attr) is not None
                argok = len(c.args) == 1 and _frame_arg_ok(
                    world, owner.mod, fn, c.args[0])
                if cq.startswith(ATX) and exists and f.attr == "response" \
                        and len(c.args) == 1 and isinstance(
                            c.args[0], ast.Name):
                    # the hat's line protocol: which *paths* bring a raw
                    # text line to this call is decided per path, so that
                    # one such path (a known finding) does not hide another
                    _atx_answer_arg(run, world, folder, mod, Q, fn, c, cv)
                    continue
                run.ob("R-RSITE", "%s#%s.%s" % (Q, cv, f.attr),
                       exists and f.attr == "response" and argok,
                       "`%s` - %s" % (
                           unparse(c)[:70],
                           "dali.command.Command has no attribute %r: "
                           "AttributeError whenever this path runs" % f.attr
                           if not exists else
                           "argument is not None / BackwardFrame / "
                           "BackwardFrameError" if not argok else
                           "not the command's response attribute"),
                       where(mod, c),
                       sample={"rule": "R-RSITE", "site": unparse(c)[:80],
                               "function": Q})
            elif isinstance(recv, ast.Name):
                b = world.lookup(owner.mod, recv.id)
                if b is not None and b.kind == "module" and \
                        b.value == "dali.command":
                    k = world.resolve_class(owner.mod, f)
                    sites += 1
                    run.ob("R-RSITE", "%s#%s.%s" % (Q, recv.id, f.attr),
                           False,
                           "`%s` builds the generic %s instead of the "
                           "command's own response type (`%s.response(...)`)"
                           ": callers get the wrong class (e.g. .value is "
                           "None instead of False for a yes/no query)" % (
                               unparse(c), k.qname if k else f.attr, cv),
                           where(mod, c))
        _check_returns(run, world, mod, Q, fn, cv)
    run.floor("response construction sites in drivers", sites, 9)

    _check_stat(run, repo, world, folder)
    _check_own_answer(run, repo, world, folder)
    _check_wait_iff_query(run, repo, world)
    _check_request_reply(run, repo, world)
    _check_zero_answer(run, repo, world)
    _check_flush(run, repo, world)
    _check_none_iff_noanswer(run, repo, world, folder, targets)
    _check_atx_drain(run, repo, world)
    _check_sequence_answers(run, repo, world)
    _check_confirmations(run, repo, world)


def _frame_arg_ok(world, modname, fn, a):
    if isinstance(a, ast.Constant) and a.value is None:
        return True
    if isinstance(a, ast.IfExp):
        # `None if x == 'no' else x`: either arm
        return _frame_arg_ok(world, modname, fn, a.body) and \
            _frame_arg_ok(world, modname, fn, a.orelse)
    if isinstance(a, ast.Call):
        k = world.resolve_class(modname, a.func)
        return k is not None and k.qname in FRAME_CLASSES
    if isinstance(a, ast.Name):
        # a local holding a frame / None / "no": all its definitions
        ok = True
        found = False
        for n in ast.walk(fn):
            if isinstance(n, ast.Assign):
                for t in n.targets:
                    if isinstance(t, ast.Name) and t.id == a.id:
                        found = True
                        v = n.value
                        if isinstance(v, ast.Constant) and (
                                v.value is None or v.value == "no"):
                            continue
                        if isinstance(v, ast.Call):
                            k = world.resolve_class(modname, v.func)
                            if k is not None and k.qname in FRAME_CLASSES:
                                continue
                            # extract(...) helpers returning frames
                            if isinstance(v.func, ast.Attribute) and \
                                    v.func.attr == "extract":
                                continue
                        if isinstance(v, ast.Call) and isinstance(
                                v.func, ast.Attribute) and v.func.attr == \
                                "read_line":
                            ok = False
                            continue
                        ok = False
        return found and ok
    return False


def _check_returns(run, world, mod, Q, fn, cv):
    """Every returned value is None, a call of <cv>.response, or a local
    assigned only from such."""
    bad = []
    for n in _walk_no_nested(fn):
        if not isinstance(n, ast.Return) or n.value is None:
            continue
        v = n.value
        if isinstance(v, ast.Constant) and v.value is None:
            continue
        if _is_resp_call(v, cv):
            continue
        if isinstance(v, ast.Name):
            for a in ast.walk(fn):
                if isinstance(a, ast.Assign) and any(
                        isinstance(t, ast.Name) and t.id == v.id
                        for t in a.targets):
                    x = a.value
                    if isinstance(x, ast.Constant) and x.value is None:
                        continue
                    if _is_resp_call(x, cv):
                        continue
                    if isinstance(x, ast.Call) and isinstance(
                            x.func, ast.Attribute) and x.func.attr in (
                                "extract", "read_line"):
                        # ATX: raw line / frame for non-queries
                        continue
                    bad.append(unparse(a)[:70])
            continue
        bad.append(unparse(n)[:70])
    run.ob("R-RSITE", Q + "#returns", not bad,
           "a value other than None / %s.response(...) can be returned: %s"
           % (cv, bad), where(mod, fn))


def _is_resp_call(v, cv):
    return isinstance(v, ast.Call) and isinstance(v.func, ast.Attribute) \
        and isinstance(v.func.value, ast.Name) and v.func.value.id == cv \
        and v.func.attr.lstrip("_") == "response"


# ---------------------------------------------------------------------------
def _chain(fn, var_pred):
    """if/elif chains whose first test mentions a variable satisfying
    var_pred: returns list of (test expr, body stmts)."""
    out = []
    for n in _walk_no_nested(fn):
        if isinstance(n, ast.If):
            p = getattr(n, "_parent", None)
            if isinstance(p, ast.If) and p.orelse == [n]:
                continue    # elif: handled from the head
            if not var_pred(n.test):
                continue
            chain = []
            cur = n
            while True:
                chain.append((cur.test, cur.body))
                if len(cur.orelse) == 1 and isinstance(cur.orelse[0],
                                                       ast.If):
                    cur = cur.orelse[0]
                else:
                    chain.append((None, cur.orelse))
                    break
            out.append(chain)
    return out


def _mentions(name):
    def pred(e):
        return any(unparse(x) == name for x in ast.walk(e))
    return pred


def _tx_counters(fn):
    """Locals that count the transmissions still to be confirmed: bound to a
    value that depends on the command's send-twice flag."""
    out = {"outstanding_transmissions"}
    for n in ast.walk(fn):
        if isinstance(n, ast.Assign) and len(n.targets) == 1 and isinstance(
                n.targets[0], ast.Name) and any(
                    isinstance(x, ast.Attribute) and x.attr == "sendtwice"
                    for x in ast.walk(n.value)):
            out.add(n.targets[0].id)
    return out


def _classify_body(world, modname, body, counters=(
        "outstanding_transmissions",)):
    """What a status branch makes of the report, from the calls and stores
    in it (constructors resolved through the module's imports, not by their
    spelling)."""
    kinds = set()
    for s in body:
        for n in [s] + list(_walk_no_nested(s)):
            if isinstance(n, ast.Call):
                k = None
                try:
                    k = world.resolve_class(modname, n.func)
                except Exception:
                    k = None
                if k is not None and k.qname == \
                        "dali.frame.BackwardFrameError":
                    kinds.add("error")
                elif k is not None and k.qname == "dali.frame.BackwardFrame":
                    kinds.add("frame")
                elif isinstance(n.func, ast.Attribute) and \
                        n.func.attr == "response" and len(n.args) == 1 and \
                        isinstance(n.args[0], ast.Constant) and \
                        n.args[0].value is None:
                    kinds.add("no")
            elif isinstance(n, ast.Assign) and isinstance(
                    n.value, ast.Constant) and n.value.value == "no":
                kinds.add("no")
            elif isinstance(n, ast.AugAssign) and isinstance(
                    n.op, ast.Sub) and unparse(n.target) in counters:
                kinds.add("echo")
            elif isinstance(n, ast.Raise):
                kinds.add("raise")
    for k in ("error", "frame", "no", "echo", "raise"):
        if k in kinds:
            return k
    return "other"


def _codes_of(folder, owner, test, var):
    """Fold a status test to a list of keys: `var == C`, `var in (A, B)`,
    `var == C and sub == D` -> 'C+D'."""
    from ..fold import ClassRef

    def ev(e):
        return folder.eval(e, {"self": ClassRef(owner),
                               "cls": ClassRef(owner)}, owner.mod)
    if isinstance(test, ast.BoolOp) and isinstance(test.op, ast.And) and \
            len(test.values) == 2:
        a = _codes_of(folder, owner, test.values[0], var)
        b = test.values[1]
        if a and isinstance(b, ast.Compare) and isinstance(b.ops[0], ast.Eq):
            v = ev(b.comparators[0])
            if isinstance(v, int):
                return ["%s+%d" % (a[0], v)], unparse(b.left)
        return None
    if isinstance(test, ast.Compare) and unparse(test.left) == var and len(
            test.ops) == 1:
        if isinstance(test.ops[0], ast.Eq):
            v = ev(test.comparators[0])
            if isinstance(v, int):
                return [str(v)]
        if isinstance(test.ops[0], ast.In):
            v = ev(test.comparators[0])
            if isinstance(v, dict):
                v = list(v)       # membership in a table: its keys
            if isinstance(v, (tuple, list, set, frozenset)) and all(
                    isinstance(x, int) for x in v):
                return [str(x) for x in sorted(v)] if isinstance(
                    v, (set, frozenset)) else [str(x) for x in v]
    return None


def _check_stat(run, repo, world, folder):
    run.rule("R-STAT", "gateway status code -> outcome table == protocol "
             "table; tested fields are the unpacked report fields")
    hid = _spec("hid.json")
    # ---- Tridonic ----------------------------------------------------------
    owner, fn = _fn(world, HID + ".tridonic", "_send_raw")
    mod = repo.mod(HID)
    Q = HID + ".tridonic._send_raw"
    chains = _chain(fn, _mentions("rtype"))
    if len(chains) != 1:
        raise AnalysisError("expected one rtype chain in %s" % Q)
    table = {}
    sub = None
    for (test, body) in chains[0]:
        if test is None:
            continue
        r = _codes_of(folder, owner, test, "rtype")
        if r is None:
            raise AnalysisError("R-STAT: unrecognised status test `%s` in %s"
                                % (unparse(test), Q))
        if isinstance(r, tuple):
            codes, sub = r
        else:
            codes = r
        for c in codes:
            table[c] = _classify_body(world, HID, body, _tx_counters(fn))
    want = hid["tridonic"]["status"]
    run.ob("R-STAT", Q + "#table", table == want,
           "status table %s, protocol %s" % (table, want), where(mod, fn),
           sample={"rule": "R-STAT", "driver": "tridonic", "table": table})
    # fields used by the chain come from the unpack of the report
    cfg = CFG(fn, may_raise=suspension_may_raise, name=Q)
    rd = reaching_defs(cfg, [a.arg for a in fn.args.args])
    unpack_nodes = [n for n in cfg.reachable if n.kind == "stmt" and
                    isinstance(n.ast, ast.Assign) and "_resptmpl.unpack" in
                    unparse(n.ast.value)]
    if len(unpack_nodes) != 1:
        raise AnalysisError("expected one _resptmpl.unpack in %s" % Q)
    un = unpack_nodes[0]
    fields = [unparse(t) for t in un.ast.targets[0].elts]
    fmt = folder.class_attr(owner, "_resptmpl")
    # names used in the chain
    used = {}
    for n in cfg.reachable:
        if n.ast is None or n.kind not in ("test", "stmt"):
            continue
        for (test, body) in chains[0]:
            cands = ([test] if test is not None else []) + list(body)
            for c in cands:
                if any(x is n.ast for x in ast.walk(c)) or c is n.ast:
                    for x in _walk_no_nested(n.ast):
                        if isinstance(x, ast.Name) and isinstance(
                                x.ctx, ast.Load) and x.id in (
                                    "frame", "raw_frame", "rtype", "seq",
                                    "rseq", "mode", "interval") or (
                                isinstance(x, ast.Name) and isinstance(
                                    x.ctx, ast.Load) and x.id in fields):
                            used.setdefault(x.id, []).append(n)
    for name, nodes in sorted(used.items()):
        for n in nodes:
            ds = defs_reaching(rd, n, name)
            run.ob("R-STAT", "%s#field:%s" % (Q, name), ds == {un.id},
                   "`%s` in the status chain (L%s) does not (only) hold the "
                   "field unpacked from the gateway report; its reaching "
                   "definitions are at lines %s" % (
                       name, n.lineno, sorted(
                           cfg.nodes[d].lineno or 0 for d in ds)),
                   where(mod, n))
    if sub is not None:
        # the sub-status byte: frame[3] of the 4-byte field
        run.ob("R-STAT", Q + "#substatus-field",
               sub in ("%s[3]" % fields[2],),
               "framing-error status is read from `%s`, expected byte 3 of "
               "the report's frame field `%s`" % (sub, fields[2]),
               where(mod, fn))
    # ---- hasseb ------------------------------------------------------------
    owner, fn = _fn(world, HID + ".hasseb", "_send_raw")
    from .. import astq
    fn = astq.propagate(fn)       # `status = report[0]` reads as the report
    Q = HID + ".hasseb._send_raw"
    chains = _chain(fn, _mentions("self._response"))
    table = {}
    for ch in chains:
        for (test, body) in ch:
            if test is None:
                continue
            if unparse(test) == "self._response == 'fail'":
                continue
            r = _codes_of(folder, owner, test, "self._response[0]")
            if r is None:
                raise AnalysisError(
                    "R-STAT: unrecognised status test `%s` in %s" % (
                        unparse(test), Q))
            for c in r:
                table[c] = _classify_body(world, HID, body)
    run.ob("R-STAT", Q + "#table", table == hid["hasseb"]["status"],
           "status table %s, protocol %s" % (table, hid["hasseb"]["status"]),
           where(mod, fn), sample={"rule": "R-STAT", "driver": "hasseb",
                                   "table": table})
    # data byte: self._response[1]
    ok = all("self._response[1]" in unparse(c) for c in call_sites(fn)
             if unparse(c.func).endswith(("BackwardFrame",
                                          "BackwardFrameError")))
    run.ob("R-STAT", Q + "#data-byte", ok,
           "the answer byte must be byte 1 of the report", where(mod, fn))
    # idle reports filtered in _handle_read
    owner2, fn2 = _fn(world, HID + ".hasseb", "_handle_read")
    from .. import astq
    dparam = fn2.args.args[1].arg
    idle_cmp = any(
        isinstance(n, ast.Compare) and len(n.ops) == 1 and isinstance(
            n.ops[0], (ast.Eq, ast.NotEq)) and {
                astq.canon(fn2, n.left),
                astq.canon(fn2, n.comparators[0])} == {
                    dparam + "[0]", "self._NO_DATA_AVAILABLE"}
        for n in ast.walk(fn2))
    run.ob("R-STAT", HID + ".hasseb._handle_read#idle-filter",
           idle_cmp and folder.class_attr(
               owner2, "_NO_DATA_AVAILABLE") == hid["hasseb"]["idle_status"],
           "idle (NO DATA AVAILABLE) reports must not wake the sender",
           where(mod, fn2))
    # ... and nothing else is filtered: whether a report wakes the sender
    # is a question about that report alone.  A test that reads what the
    # driver remembers (the report held from the previous command) drops the
    # answer to a query that happens to repeat the previous answer, and the
    # sender waits for ever.
    from ..cfg import _walk_no_nested as _wnn
    remembered = sorted({
        "self." + x.attr for n in _wnn(fn2) if isinstance(
            n, (ast.If, ast.While, ast.IfExp, ast.Assert))
        for x in ast.walk(n.test) if isinstance(x, ast.Attribute) and
        isinstance(x.value, ast.Name) and x.value.id == "self" and
        isinstance(x.ctx, ast.Load) and not x.attr.isupper() and
        not x.attr.startswith("_NO_") and folder.class_attr(
            owner2, x.attr).__class__.__name__ not in ("int",)})
    run.ob("R-STAT", HID + ".hasseb._handle_read#only-the-report-decides",
           not remembered,
           "whether a report wakes the sender depends on %s, which the "
           "driver remembers from earlier reports: an answer equal to the "
           "previous one is taken for a repetition and the query never "
           "completes" % remembered, where(mod, fn2))
    # ---- daliserver --------------------------------------------------------
    ds = _spec("daliserver.json")
    owner, fn = _fn(world, DS + ".DaliServer", "unpack_response")
    mod = repo.mod(DS)
    Q = DS + ".DaliServer.unpack_response"
    chains = _chain(fn, _mentions("status"))
    table = {}
    other = None
    for ch in chains:
        for (test, body) in ch:
            if test is None:
                other = _classify_body(world, DS, body)
                continue
            r = _codes_of(folder, owner, test, "status")
            if r is None:
                continue
            for c in r:
                table[c] = _classify_body(world, DS, body)
    run.ob("R-STAT", Q + "#table", table == ds["status"] and
           other == ds["other_status"],
           "status table %s else %s, protocol %s else %s" % (
               table, other, ds["status"], ds["other_status"]),
           where(mod, fn), sample={"rule": "R-STAT", "driver": "daliserver",
                                   "table": table})
    un = [n for n in ast.walk(fn) if isinstance(n, ast.Assign) and
          "struct.unpack" in unparse(n.value)]
    ok = len(un) == 1 and unparse(un[0].value) == \
        "struct.unpack('BBBB', result)" and [
            unparse(t) for t in un[0].targets[0].elts][1:3] == [
                "status", "rval"]
    run.ob("R-STAT", Q + "#fields", ok,
           "the reply must be unpacked as (version, status, value, pad)",
           where(mod, fn))
    # ---- ATX ----------------------------------------------------------------
    atx = _spec("atx.json")
    owner, fn = _fn(world, ATX + ".DaliHatSerialDriver", "extract")
    mod = repo.mod(ATX)
    Q = ATX + ".DaliHatSerialDriver.extract"
    # 'J'+hex -> BackwardFrame(int(hex, 16)), anything else None: decided
    # on the paths of extract() (exceptions of the try body included)
    from .. import paths as _paths
    dparam = fn.args.args[1].arg
    try:
        eps = _paths.summaries(fn, try_prefixes=True)
    except _paths.Unsupported as e:
        raise AnalysisError("R-STAT: ATX extract() is not loop-free: %s" % e)
    okr = True
    nframe = 0
    jtest = "%s.startswith('J')" % dparam
    for p_ in eps:
        isj = None
        exc = False
        for (t_, b_) in p_.conds:
            if unparse(t_) == jtest:
                isj = b_
            elif isinstance(t_, ast.Name) and t_.id.startswith("<"):
                exc = True
        val = p_.expr if p_.kind == "return" else None
        is_none = val is None or (isinstance(val, ast.Constant) and
                                  val.value is None)
        if p_.kind == "raise":
            okr = False
        elif isj and not exc:
            k_ = world.resolve_class(ATX, val.func) if isinstance(
                val, ast.Call) else None
            good = k_ is not None and k_.qname == "dali.frame.BackwardFrame" \
                and len(val.args) == 1 and unparse(val.args[0]) == \
                "int(%s[1:], 16)" % dparam
            nframe += good
            okr = okr and good
        else:
            okr = okr and is_none
    run.ob("R-STAT", Q + "#reply", okr and nframe >= 1,
           "'J'+hex must become BackwardFrame(int(hex, 16)), anything else "
           "None", where(mod, fn))
    # ---- LUBA / SCI answer value -------------------------------------------
    for cq in (SER + ".DriverLubaRs232", SER + ".DriverSCIRS232"):
        owner, fn = _fn(world, cq, "send")
        mod = repo.mod(SER)
        Q = cq + ".send"
        # <command>.response(BackwardFrame(x)) where x was taken from the
        # gateway's answer queue
        cmdp = fn.args.args[1].arg
        ok = False
        for c in call_sites(fn):
            if not (isinstance(c.func, ast.Attribute) and c.func.attr ==
                    "response" and unparse(c.func.value) == cmdp and
                    len(c.args) == 1 and isinstance(c.args[0], ast.Call)
                    and len(c.args[0].args) == 1 and isinstance(
                        c.args[0].args[0], ast.Name)):
                continue
            k_ = world.resolve_class(SER, c.args[0].func)
            if k_ is None or k_.qname != "dali.frame.BackwardFrame":
                continue
            x = c.args[0].args[0].id
            srcs = [unparse(n.value, 400) for n in ast.walk(fn) if isinstance(
                n, ast.Assign) and any(isinstance(t_, ast.Name) and
                                       t_.id == x for t_ in n.targets)]
            if srcs and all("_queue_rx_raw_dali.get()" in t_ or
                            "wait_dali_raw_response()" in t_ or t_ == "None"
                            for t_ in srcs):
                ok = True
        hs = [unparse(h.type) for n in ast.walk(fn) if isinstance(n, ast.Try)
              for h in n.handlers if h.type is not None]
        run.ob("R-STAT", Q + "#answer", ok and
               "asyncio.exceptions.TimeoutError" in hs,
               "the raw answer byte must be wrapped as BackwardFrame(raw_rsp) "
               "and a timeout must read as no answer", where(mod, fn))


# ---------------------------------------------------------------------------
def _check_own_answer(run, repo, world, folder):
    run.rule("R-OWN-ANSWER", "the answer is awaited inside the serialiser "
             "region of the write, or keyed by the write's sequence number")
    mod = repo.mod(HID)
    # hasseb: write, clear, wait all under _command_lock
    owner, fn = _fn(world, HID + ".hasseb", "_send_raw")
    Q = HID + ".hasseb._send_raw"
    cfg = CFG(fn, may_raise=suspension_may_raise, name=Q)
    W = lock_worlds(cfg)
    ok = True
    n_aw = 0
    for n in cfg.reachable:
        if n.ast is None or n.kind != "stmt":
            continue
        t = unparse(n.ast)
        if "os.write" in t or "_response_available" in t or \
                "self._response" in t:
            n_aw += 1
            if not W.must(n, ("held", "_command_lock")):
                ok = False
    run.ob("R-OWN-ANSWER", Q, ok and n_aw >= 3,
           "write, stale-flag clear and answer wait must all lie inside "
           "`async with self._command_lock`", where(mod, fn))
    # clear happens after the write and before the wait
    order = [unparse(n.ast) for n in cfg.reachable if n.kind == "stmt" and
             n.ast is not None and ("os.write" in unparse(n.ast) or
                                    "_response_available" in unparse(n.ast))]
    idx_w = [i for i, t in enumerate(order) if "os.write" in t]
    idx_c = [i for i, t in enumerate(order) if t ==
             "self._response_available.clear()"]
    idx_a = [i for i, t in enumerate(order) if "await" in t]
    run.ob("R-OWN-ANSWER", Q + "#clear-before-wait",
           bool(idx_w and idx_c and idx_a) and min(idx_c) < min(idx_a),
           "a stale report must be discarded before waiting for the answer",
           where(mod, fn))
    # Tridonic: slot inserted before the write, keyed by the seq sent
    owner, fn = _fn(world, HID + ".tridonic", "_send_raw")
    Q = HID + ".tridonic._send_raw"
    cfg = CFG(fn, may_raise=suspension_may_raise, name=Q)
    ins = [n for n in cfg.reachable if n.kind == "stmt" and isinstance(
        n.ast, ast.Assign) and unparse(n.ast.targets[0]) ==
        "self._outstanding[seq]"]
    wr = [n for n in cfg.reachable if n.kind == "stmt" and "os.write" in
          unparse(n.ast)]
    okk = len(ins) == 1 and len(wr) == 1 and _dominates(cfg, ins[0], wr[0])
    cmdcall = [c for c in call_sites(fn) if unparse(c.func) == "self._cmd"]
    okseq = len(cmdcall) == 1 and len(cmdcall[0].args) >= 2 and unparse(
        cmdcall[0].args[1]) == "seq"
    seqdef = [n for n in cfg.reachable if n.kind == "stmt" and unparse(
        n.ast) == "seq = next(self._cmd_seq)"]
    run.ob("R-OWN-ANSWER", Q + "#slot-before-write", okk and okseq and
           len(seqdef) == 1,
           "the in-flight slot must be registered under the sequence number "
           "that is put into the packet, before the packet is written",
           where(mod, fn))
    # routing in _handle_read: data[seq_offset] -> _outstanding
    owner, fn2 = _fn(world, HID + ".tridonic", "_handle_read")
    fmt = None
    for (nm, e, st) in owner.attr_order:
        if nm == "_resptmpl" and isinstance(e, ast.Call) and e.args and \
                isinstance(e.args[0], ast.Constant):
            fmt = e.args[0].value
    if fmt is None:
        raise AnalysisError("tridonic._resptmpl format not found")
    off = struct.calcsize(">BB4sH")
    hid = _spec("hid.json")
    from .. import astq, pred
    from ..pathcond import path_conds
    dparam = fn2.args.args[1].arg
    defs2 = astq._defs(fn2)
    keys = set()
    for n in ast.walk(fn2):
        if isinstance(n, ast.Subscript) and unparse(
                n.value) == "self._outstanding":
            keys.add(astq.canon(fn2, n.slice, defs=defs2))
        elif isinstance(n, ast.Call) and isinstance(
                n.func, ast.Attribute) and unparse(
                    n.func.value) == "self._outstanding" and n.func.attr in (
                        "get", "pop") and n.args:
            keys.add(astq.canon(fn2, n.args[0], defs=defs2))
        elif isinstance(n, ast.Compare) and len(n.ops) == 1 and isinstance(
                n.ops[0], (ast.In, ast.NotIn)) and unparse(
                    n.comparators[0]) == "self._outstanding":
            keys.add(astq.canon(fn2, n.left, defs=defs2))
    run.ob("R-OWN-ANSWER", HID + ".tridonic._handle_read#route-by-seq",
           fmt == hid["tridonic"]["response_format"] and off ==
           hid["tridonic"]["seq_offset"] and keys == {
               "%s[%d]" % (dparam, off)},
           "reports must be routed by the sequence byte (offset %d of %s); "
           "the in-flight table is looked up with %s" % (
               off, fmt, sorted(keys)), where(mod, fn2))
    # ... and only reports of type RESPONSE reach the in-flight table
    cfg2 = CFG(fn2, may_raise=suspension_may_raise,
               name=HID + ".tridonic._handle_read")
    P2 = pred.Parser(lambda e: None)

    def tree2(t):
        for x in ast.walk(t):
            if isinstance(x, ast.NamedExpr):
                return None
        try:
            return P2.tree(astq.resolve(fn2, t, defs=defs2))
        except pred.Unrecognised:
            return None
    a_, b_ = sorted(["%s[0]" % dparam, "self._MODE_RESPONSE"])
    want2 = frozenset([frozenset([("p", "%s == %s" % (a_, b_), True)])])
    only_resp = True
    nsite = 0
    for n in cfg2.reachable:
        if n.ast is None or n.kind not in ("stmt", "test"):
            continue
        if "self._outstanding" not in unparse(n.ast, 400):
            continue
        nsite += 1
        d = path_conds(cfg2, n, tree2, what="R-OWN-ANSWER")
        d = frozenset(frozenset(a for a in c if "[0]" in a[1]) for c in d)
        if not pred.implies(d, want2)[0]:
            only_resp = False
    run.ob("R-OWN-ANSWER", HID + ".tridonic._handle_read#responses-only",
           only_resp and nsite >= 1, "only MODE_RESPONSE reports may be "
           "routed to waiting senders", where(mod, fn2))
    check_serial_order(run, repo, world)


def check_serial_order(run, repo, world, rule="R-OWN-ANSWER"):
    """LUBA / SCI: flush precedes the write, answer awaited after, all under
    the transaction lock (shared with C17: a stale answer left in the queue
    by a caller that gave up is another command's data)."""
    RULE = rule
    mod = repo.mod(SER)
    for cq in (SER + ".DriverLubaRs232", SER + ".DriverSCIRS232"):
        owner, fn = _fn(world, cq, "send")
        Q = cq + ".send"
        cfg = CFG(fn, may_raise=suspension_may_raise, name=Q)
        W = lock_worlds(cfg)
        seq = []
        for n in cfg.reachable:
            if n.kind != "stmt" or n.ast is None:
                continue
            t = unparse(n.ast)
            if "reset_dali_response()" in t:
                seq.append(("flush", n))
            elif "send_dali_command(msg)" in t:
                seq.append(("tx", n))
            elif "wait_dali_raw_response" in t or \
                    "_queue_rx_raw_dali.get()" in t:
                seq.append(("rx", n))
        kinds = [k for k, _ in seq]
        ok = kinds.count("flush") == 1 and kinds.count("tx") == 1 and \
            kinds.count("rx") == 1
        if ok:
            nf = [n for k, n in seq if k == "flush"][0]
            nt = [n for k, n in seq if k == "tx"][0]
            nr = [n for k, n in seq if k == "rx"][0]
            ok = _dominates(cfg, nf, nt) and _dominates(cfg, nt, nr)
            for n in (nf, nt, nr):
                ok = ok and all(("held", "transaction_lock") in w or (
                    "cond", "in_transaction", True) in w for w in W.at(n))
        run.ob(RULE, Q, ok,
               "stale-answer flush, transmission and answer wait must follow "
               "each other inside the transaction-lock region", where(mod, fn))
        # the answer window is bounded
        okw = any("asyncio.wait_for" in unparse(n.ast) and "timeout_rx" in
                  unparse(n.ast) for k, n in seq if k == "rx")
        run.ob(RULE, Q + "#bounded-wait", okw,
               "the answer wait must be bounded by timeout_rx", where(mod, fn))


def _dominates(cfg, a, b):
    seen, stack = set(), [cfg.entry]
    while stack:
        n = stack.pop()
        if n.id in seen or n is a:
            continue
        seen.add(n.id)
        if n is b:
            return False
        stack += [m for (l, m) in n.succ]
    return True


def _check_flush(run, repo, world):
    run.rule("R-FLUSH", "a stale-item flush drains the queue whose size it "
             "tests, and drains it completely (loop)")
    mod = repo.mod(SER)
    n_blocks = 0
    for c in world.class_order:
        if c.mod != SER:
            continue
        for name, (kind, fn) in c.methods.items():
            if name not in ("reset_dali_response",):
                continue
            from ..normal import normalise
            fn = normalise(fn, world, SER, c, aliases=True)
            Q = "%s.%s" % (c.qname, name)
            # every get_nowait() of the flush: inside a loop, and the
            # nearest enclosing emptiness test is about the same queue
            parent = {}
            for x in ast.walk(fn):
                for ch in ast.iter_child_nodes(x):
                    parent[id(ch)] = x
            sized = {}       # local <- <queue>.qsize()
            for x in ast.walk(fn):
                if isinstance(x, ast.Assign) and isinstance(
                        x.value, ast.Call) and unparse(
                            x.value.func).endswith(".qsize") and isinstance(
                                x.targets[0], ast.Name):
                    sized[x.targets[0].id] = unparse(
                        x.value.func)[:-len(".qsize")]

            def queue_of_test(t):
                """The queue an emptiness / size test is about."""
                for y in ast.walk(t):
                    if isinstance(y, ast.Call) and isinstance(
                            y.func, ast.Attribute) and y.func.attr in (
                                "empty", "qsize"):
                        return unparse(y.func.value)
                    if isinstance(y, ast.Name) and y.id in sized:
                        return sized[y.id]
                return None
            for x in ast.walk(fn):
                if not (isinstance(x, ast.Call) and isinstance(
                        x.func, ast.Attribute) and
                        x.func.attr == "get_nowait"):
                    continue
                q = unparse(x.func.value)
                n_blocks += 1
                in_loop = False
                tested = None
                p_ = parent.get(id(x))
                while p_ is not None and p_ is not fn:
                    if isinstance(p_, (ast.While, ast.For, ast.AsyncFor)):
                        in_loop = True
                    t_ = None
                    if isinstance(p_, (ast.While, ast.If)):
                        t_ = p_.test
                    elif isinstance(p_, ast.For):
                        t_ = p_.iter
                    if t_ is not None and tested is None:
                        tested = queue_of_test(t_)
                    p_ = parent.get(id(p_))
                key = "%s#%s" % (Q, q.replace("self.", ""))
                run.ob("R-FLUSH", key + "[queue]", tested in (None, q),
                       "the flush tests %s but drains %s: stale items "
                       "stay queued and the next send consumes the "
                       "previous command's confirmation" % (tested, q),
                       where(mod, x),
                       sample={"rule": "R-FLUSH", "tested": tested,
                               "drained": q})
                run.ob("R-FLUSH", key + "[loop]", in_loop,
                       "only one stale item is discarded although %s "
                       "may hold several" % q, where(mod, x))
    run.floor("stale-flush blocks", n_blocks, 3)
    # every flush must cover the queues the send path later reads
    for cq, queues in ((SER + ".DriverLubaRs232.LubaProtocol",
                        ["self._queue_rx_raw_dali"]),
                       (SER + ".DriverSCIRS232.SCIRS232Protocol",
                        ["self._queue_rx_raw_dali", "self._queue_rx_info"])):
        c = world.cls(cq)
        from ..normal import normalise
        fn = normalise(c.methods["reset_dali_response"][1], world, SER, c,
                       aliases=True)
        txt = ast.unparse(fn)
        # ... on every path: the exit cannot be reached without passing a
        # look at each queue (an early return after the first queue must
        # not skip the second)
        fcfg = CFG(fn, may_raise=lambda n: False, name=cq +
                   ".reset_dali_response")
        for q in queues:
            looks = {n.id for n in fcfg.reachable if n.ast is not None and (
                (q + ".qsize()") in unparse(n.ast, 400) or
                (q + ".empty()") in unparse(n.ast, 400))}
            seen, stack = set(), [fcfg.entry]
            skipped = False
            while stack:
                n = stack.pop()
                if n.id in seen or n.id in looks:
                    continue
                seen.add(n.id)
                if n is fcfg.exit:
                    skipped = True
                    break
                stack += [m for (l, m) in n.succ if l != "exc"]
            run.ob("R-FLUSH", "%s.reset_dali_response#always:%s" % (
                cq, q.replace("self.", "")), bool(looks) and not skipped,
                "the flush can return without looking at %s: a stale item "
                "left there is taken for the next command's confirmation / "
                "answer" % q, where(mod, fn))
        for q in queues:
            run.ob("R-FLUSH", "%s.reset_dali_response#covers:%s" % (
                cq, q.replace("self.", "")),
                (q + ".qsize()") in txt or ("not %s.empty()" % q) in txt,
                "the flush does not look at %s, which the send path reads"
                % q, where(mod, fn))


def _cond_worlds(cfg):
    from ..cfg import forward_worlds
    from ..seq import cond_edge_transfer, kill_conds_on_assign
    return forward_worlds(cfg, kill_conds_on_assign, cond_edge_transfer())


def _check_wait_iff_query(run, repo, world):
    """The answer wait is reached for every command that expects an answer:
    the only condition on the command that may guard it is its `response`
    / `is_query` attribute."""
    run.rule("R-WAIT-IFF-QUERY", "the answer wait is guarded by nothing but "
             "`command.response` / `command.is_query`")
    mod = repo.mod(HID)
    for cq, waits in ((HID + ".hasseb", ("self._response_available.wait()",)),
                      (HID + ".tridonic", ("event.wait()",))):
        owner, fn = _fn(world, cq, "_send_raw")
        Q = cq + "._send_raw"
        # the tridonic sender waits on the event it registered in
        # self._outstanding[seq] = (<event>, <messages>), whatever it is called
        for n in ast.walk(fn):
            if isinstance(n, ast.Assign) and any(
                    isinstance(t, ast.Subscript) and unparse(
                        t.value) == "self._outstanding"
                    for t in n.targets) and isinstance(
                        n.value, ast.Tuple) and n.value.elts and isinstance(
                            n.value.elts[0], ast.Name):
                waits = waits + ("%s.wait()" % n.value.elts[0].id,)
        cfg = CFG(fn, may_raise=suspension_may_raise, name=Q)
        W = _cond_worlds(cfg)
        p = fn.args.args[1].arg
        sites = [n for n in cfg.reachable if n.ast is not None and n.kind in (
            "stmt", "test") and any(w in unparse(n.ast, 400) for w in waits)]
        if not sites:
            raise AnalysisError("%s: answer wait not found" % Q)
        for n in sites:
            # conditions that hold in EVERY world reaching the wait
            ws = W.at(n)
            common = None
            for w in ws:
                cf = {(f[1], f[2]) for f in w if f[0] == "cond"}
                common = cf if common is None else (common & cf)
            bad = {(t, b) for (t, b) in (common or set())
                   if (p + ".") in t and t not in (
                       p + ".response", p + ".is_query",
                       p + ".response is None",
                       p + ".response is not None")}
            run.ob("R-WAIT-IFF-QUERY", Q, not bad,
                   "the answer wait is only reached when %s: a query that "
                   "does not satisfy this returns no answer object although "
                   "one was expected" % sorted(bad), where(mod, n),
                   sample={"rule": "R-WAIT-IFF-QUERY", "function": Q})


def _check_request_reply(run, repo, world):
    """daliserver: every request written to the socket is followed by the
    read of its 4-byte reply before the next request and before returning;
    an unread reply would be taken for the answer to the next command."""
    run.rule("R-REQ-REPLY", "daliserver: send / recv strictly alternate on "
             "every path (no reply left unread)")
    from ..cfg import forward_worlds, explicit_raise_only
    owner, fn = _fn(world, DS + ".DaliServer", "send")
    Q = DS + ".DaliServer.send"
    mod = repo.mod(DS)
    cfg = CFG(fn, may_raise=explicit_raise_only, name=Q)

    def ev(node):
        out = []
        if node.ast is None or node.kind not in ("stmt", "test"):
            return out
        for c in _walk_no_nested(node.ast):
            if isinstance(c, ast.Call) and isinstance(
                    c.func, ast.Attribute) and isinstance(
                        c.func.value, ast.Name) and c.func.value.id == "s":
                if c.func.attr in ("send", "sendall"):
                    out.append("send")
                elif c.func.attr == "recv":
                    out.append("recv")
        return out

    def tr(node, st):
        for e in ev(node):
            if e == "send":
                st = (st | {"double"}) if "pending" in st else st
                st = st | {"pending"}
            else:
                st = st - {"pending"}
        return st
    from ..seq import cond_edge_transfer
    W = forward_worlds(cfg, tr, cond_edge_transfer())
    n_send = sum(1 for n in cfg.reachable if "send" in ev(n))
    run.floor("daliserver socket sends", n_send, 1)
    bad = [w for w in W.at(cfg.exit) if "pending" in w or "double" in w]
    run.ob("R-REQ-REPLY", Q, not bad,
           "a path returns with a request whose reply was not read (or two "
           "requests are written before one reply is read): on a persistent "
           "connection the next command receives this command's reply",
           where(mod, fn), sample={"rule": "R-REQ-REPLY", "sends": n_send})


def _check_zero_answer(run, repo, world):
    """An answer byte of 0 is an answer: the construction of
    BackwardFrame(x) from a received integer must not be conditional on the
    truth of x."""
    run.rule("R-ZERO-ANSWER", "a received answer of value 0 still becomes a "
             "backward frame (no truthiness test on the answer byte)")
    n = 0
    for cq in (SER + ".DriverLubaRs232", SER + ".DriverSCIRS232"):
        owner, fn = _fn(world, cq, "send")
        Q = cq + ".send"
        mod = repo.mod(SER)
        cfg = CFG(fn, may_raise=suspension_may_raise, name=Q)
        W = _cond_worlds(cfg)
        for nd in cfg.reachable:
            if nd.ast is None or nd.kind != "stmt":
                continue
            for c in _walk_no_nested(nd.ast):
                if isinstance(c, ast.Call) and unparse(c.func).endswith(
                        "BackwardFrame") and len(c.args) == 1 and isinstance(
                            c.args[0], ast.Name):
                    x = c.args[0].id
                    n += 1
                    ws = W.at(nd)
                    forced = bool(ws) and all(("cond", x, True) in w
                                              for w in ws)
                    run.ob("R-ZERO-ANSWER", "%s#BackwardFrame(%s)" % (Q, x),
                           not forced,
                           "BackwardFrame(%s) is only built when `%s` is "
                           "truthy: an answer of value 0 is dropped and the "
                           "caller is told nothing answered" % (x, x),
                           where(mod, nd))
    run.floor("answer-frame constructions in serial send paths", n, 2)


# ---------------------------------------------------------------------------
def _query_of(w, cv):
    """True / False / None: what the path knows about `cv` expecting an
    answer."""
    for (txt, b) in ((cv + ".response", True), (cv + ".is_query", True),
                     (cv + ".response is None", False),
                     (cv + ".response is not None", True),
                     (cv + ".response == None", False)):
        for val in (True, False):
            if ("cond", txt, val) in w:
                return val == b
    return None


def _check_none_iff_noanswer(run, repo, world, folder, targets):
    """None is returned exactly for a command that expects no answer: on
    every path to a normal exit that hands back None (explicitly, through a
    local that still holds None, or by falling off the end) the path has
    established that `<command>.response` / `.is_query` is false."""
    run.rule("R-NONE-IFF-NOANSWER", "a send path that ends with None has "
             "tested the command as expecting no answer (every path)")
    from ..cfg import forward_worlds
    from ..seq import cond_edge_transfer, kill_conds_on_assign, assigned_names
    hid = _spec("hid.json")
    n_exits = 0
    for (cq, mname, cv) in targets:
        owner, fn = _fn(world, cq, mname)
        mod = repo.mod(owner.mod)
        Q = "%s.%s" % (cq, mname)
        cfg = CFG(fn, may_raise=suspension_may_raise, name=Q)

        def kinds_of(e, w, cv=cv):
            if e is None or (isinstance(e, ast.Constant) and
                             e.value is None):
                return frozenset(["none"])
            if _is_resp_call(e, cv):
                return frozenset(["resp"])
            if isinstance(e, ast.Name):
                for f in w:
                    if f[0] == "val" and f[1] == e.id:
                        return f[2]
                return frozenset(["other"])
            if isinstance(e, ast.IfExp):
                return kinds_of(e.body, w) | kinds_of(e.orelse, w)
            return frozenset(["other"])

        def transfer(node, w, cv=cv):
            w = kill_conds_on_assign(node, w)
            a = node.ast
            if a is None or node.kind not in ("stmt", "for", "with_enter",
                                              "except"):
                return w
            if node.kind == "stmt" and isinstance(a, ast.Return):
                return w | {("returned", unparse(a.value) if a.value
                             is not None else "None",
                             kinds_of(a.value, w))}
            names = set()
            if node.kind == "stmt":
                names = assigned_names(a)
            elif node.kind == "for":
                names = assigned_names(a.target)
            elif node.kind == "with_enter":
                for it in a.items:
                    if it.optional_vars is not None:
                        names |= assigned_names(it.optional_vars)
            elif node.kind == "except" and a.name:
                names = {a.name}
            if not names:
                return w
            new = None
            if node.kind == "stmt" and isinstance(a, ast.Assign) and len(
                    a.targets) == 1 and isinstance(a.targets[0], ast.Name):
                new = ("val", a.targets[0].id, kinds_of(a.value, w))
            elif node.kind == "stmt" and isinstance(
                    a, ast.AnnAssign) and isinstance(
                        a.target, ast.Name) and a.value is not None:
                new = ("val", a.target.id, kinds_of(a.value, w))
            w = frozenset(f for f in w if not (
                f[0] == "val" and f[1] in names))
            for nm in names:
                if new is not None and new[1] == nm:
                    w = w | {new}
                else:
                    w = w | {("val", nm, frozenset(["other"]))}
            return w
        W = forward_worlds(cfg, transfer, cond_edge_transfer(),
                           max_worlds=20000)
        ws = W.at(cfg.exit)
        if not ws:
            raise AnalysisError("%s has no normal exit" % Q)
        codes_all = None
        if cq.endswith(".hasseb"):
            codes_all = set(hid["hasseb"]["status"])
        for w in ws:
            ret = [f for f in w if f[0] == "returned"]
            kinds = ret[0][2] if ret else frozenset(["none"])
            text = ret[0][1] if ret else "(falls off the end)"
            n_exits += 1
            if "none" not in kinds:
                continue
            q = _query_of(w, cv)
            if q is False:
                continue
            # a status code the gateway's protocol does not define (every
            # defined code was compared and ruled out on this path) is not
            # one of the bus outcomes C16 speaks about
            if codes_all:
                ruled = set()
                for f in w:
                    if f[0] == "cond" and f[2] is False and " == " in f[1]:
                        try:
                            t_ = ast.parse(f[1], mode="eval").body
                        except SyntaxError:
                            continue
                        r = _codes_of(folder, owner, t_, unparse(t_.left)) \
                            if isinstance(t_, ast.Compare) else None
                        if r and not isinstance(r, tuple):
                            ruled |= set(r)
                if ruled >= codes_all:
                    continue
            path = W.trace(cfg.exit, w)
            tests = [(n.lineno, unparse(n.ast, 50)) for n in path
                     if n.kind == "test"][-4:]
            run.ob("R-NONE-IFF-NOANSWER", Q + "#none-exit", False,
                   "%s ends with None (`%s`) on a path where %s %s; a "
                   "caller waiting for the answer of a query gets None "
                   "instead of %s.response(...); last tests on the path: %s"
                   % (Q, text, cv,
                      "expects an answer" if q else
                      "was not tested for expecting an answer", cv, tests),
                   where(mod, path[-2] if len(path) > 1 else fn),
                   sample={"rule": "R-NONE-IFF-NOANSWER", "function": Q})
        run.ob("R-NONE-IFF-NOANSWER", Q, True, "", where(mod, fn),
               sample={"rule": "R-NONE-IFF-NOANSWER", "function": Q,
                       "exit worlds": len(ws)})
    run.floor("send-path exit worlds examined", n_exits, 12)


def _check_atx_drain(run, repo, world):
    """ATX hat: after a line that reports a collision ('X' / 'Z') the driver
    reads until the line buffer is empty before it looks at another line or
    returns; what is left there is the next command's first 'answer'."""
    run.rule("R-ATX-DRAIN", "a collision line is followed by a complete "
             "drain of the serial line buffer before the next read / return")
    from ..cfg import forward_worlds, explicit_raise_only
    from ..seq import cond_edge_transfer, kill_conds_on_assign, assigned_names
    owner, fn = _fn(world, ATX + ".SyncDaliHatDriver", "send")
    mod = repo.mod(ATX)
    Q = ATX + ".SyncDaliHatDriver.send"
    cfg = CFG(fn, may_raise=explicit_raise_only, name=Q)
    # locals holding a line read from the device
    rl = set()
    for n in _walk_no_nested(fn):
        if isinstance(n, ast.Assign) and isinstance(
                n.value, ast.Call) and isinstance(
                    n.value.func, ast.Attribute) and \
                n.value.func.attr == "read_line":
            rl |= {t.id for t in n.targets if isinstance(t, ast.Name)}
    # drain loops: `while v != "": v = read_line()` - the exit edge is the
    # moment the buffer is known to be empty
    drain_tests = {}
    for n in cfg.reachable:
        if n.kind != "test" or not isinstance(
                n.info.get("owner"), ast.While):
            continue
        loop = n.info["owner"]
        t = n.ast
        v = None
        if isinstance(t, ast.Compare) and len(t.ops) == 1 and isinstance(
                t.left, ast.Name) and isinstance(
                    t.comparators[0], ast.Constant) and \
                t.comparators[0].value == "":
            v = (t.left.id, "F" if isinstance(t.ops[0], ast.NotEq) else
                 "T" if isinstance(t.ops[0], ast.Eq) else None)
        elif isinstance(t, ast.Name):
            v = (t.id, "F")
        if v is None or v[1] is None or v[0] not in rl:
            continue
        reads = any(isinstance(x, ast.Assign) and any(
            isinstance(tt, ast.Name) and tt.id == v[0] for tt in x.targets)
            and isinstance(x.value, ast.Call) and isinstance(
                x.value.func, ast.Attribute) and
            x.value.func.attr == "read_line"
            for b in loop.body for x in ast.walk(b))
        if reads:
            drain_tests[n.id] = v
    if not drain_tests:
        raise AnalysisError("%s: no drain loop over read_line() found" % Q)
    main = rl - {v[0] for v in drain_tests.values()}
    if not main:
        raise AnalysisError("%s: no answer line local found" % Q)

    def collision(w):
        for f in w:
            if f[0] != "cond" or f[2] is not True:
                continue
            if not any((m + "[0]") in f[1] or (m + ".startswith") in f[1]
                       for m in main):
                continue
            if " == " in f[1] or " in " in f[1] or "startswith" in f[1]:
                if "'X'" in f[1] or "'Z'" in f[1]:
                    return f[1]
        return None

    def transfer(node, w):
        w2 = kill_conds_on_assign(node, w)
        if node.kind == "stmt" and node.ast is not None and \
                assigned_names(node.ast) & main:
            w2 = frozenset(f for f in w2 if f[0] != "drained")
            if isinstance(node.ast, ast.Assign) and isinstance(
                    node.ast.value, ast.Call) and isinstance(
                        node.ast.value.func, ast.Attribute) and \
                    node.ast.value.func.attr == "read_line":
                w2 = frozenset(f for f in w2 if f[0] != "got-line")
        return w2
    cet = cond_edge_transfer()

    def edge(src, label, dst, w):
        w = cet(src, label, dst, w)
        if w is None:
            return None
        if src.id in drain_tests and label == drain_tests[src.id][1]:
            w = w | {("drained",)}
        if src.kind == "test" and label == "T" and isinstance(
                src.ast, ast.Name) and src.ast.id in main:
            # the line just read is not empty (stays true when the local is
            # later replaced by the frame extracted from it)
            w = w | {("got-line",)}
        return w
    W = forward_worlds(cfg, transfer, edge, max_worlds=20000)
    n_sites = 0
    seen_collision = False
    for n in list(cfg.reachable):
        leaves = n is cfg.exit or (
            n.kind == "stmt" and n.ast is not None and
            assigned_names(n.ast) & main)
        if not leaves:
            continue
        n_sites += 1
        for w in W.at(n):
            c = collision(w)
            if c is None:
                continue
            seen_collision = True
            if ("drained",) in w:
                continue
            path = W.trace(n, w)
            run.ob("R-ATX-DRAIN", Q + "#collision-drained", False,
                   "after a collision line (`%s`) the path %s without "
                   "having read the line buffer empty: the rest of the "
                   "garbled exchange is read as the answer to the next "
                   "command" % (c, "returns" if n is cfg.exit else
                                "goes on to `%s`" % unparse(n.ast, 40)),
                   where(mod, path[-2] if len(path) > 1 else fn),
                   sample={"rule": "R-ATX-DRAIN", "function": Q})
    if not seen_collision:
        raise AnalysisError("%s: no path on which the answer line is "
                            "recognised as a collision ('X' / 'Z')" % Q)
    # the read loop gives the hat its full budget of reads: it is left early
    # only with a line in hand (an answer, an 'X') - never because one read
    # timed out, or an answer printed a little later is left in the buffer
    # for the next command
    n_brk = 0
    for n in cfg.reachable:
        if not (n.kind == "stmt" and isinstance(n.ast, ast.Break)):
            continue
        n_brk += 1
        for w in W.at(n):
            if ("got-line",) in w or any(
                    f[0] == "cond" and f[1] in main and f[2] is True
                    for f in w):
                continue
            path = W.trace(n, w)
            run.ob("R-ATX-DRAIN", Q + "#leaves-loop-only-with-a-line", False,
                   "the read loop is left (break) on a path that has not "
                   "established that a line was read (%s): after a single "
                   "timed-out read the command's answer, printed a moment "
                   "later, stays in the serial buffer and is handed to the "
                   "next command" % " -> ".join(
                       "L%s" % x.lineno for x in path[-6:] if x.lineno),
                   where(mod, n))
            break
    run.floor("breaks out of the hat's read loop", n_brk, 3)
    run.ob("R-ATX-DRAIN", Q, True, "", where(mod, fn),
           sample={"rule": "R-ATX-DRAIN", "function": Q,
                   "drain loops": len(drain_tests), "sites": n_sites})


def _check_sequence_answers(run, repo, world):
    """run_sequence hands the generator, at each step, the answer to the
    command of that step - and None for a step that sent nothing (a sleep or
    progress marker): the variable passed to <seq>.send() is re-assigned on
    every path between two sends, so an answer is delivered once, to the
    step it belongs to."""
    run.rule("R-SEQ-ANSWER", "run_sequence: the value sent into the "
             "generator is assigned afresh on every path between two sends "
             "(no step is handed the previous step's answer)")
    from ..cfg import forward_worlds
    from ..seq import assigned_names
    n_sites = 0
    for (cq, m) in ((HID + ".hid", HID), (SER + ".DriverSerialBase", SER)):
        owner, fn = _fn(world, cq, "run_sequence")
        mod = repo.mod(owner.mod)
        Q = cq + ".run_sequence"
        seqp = fn.args.args[1].arg
        cfg = CFG(fn, may_raise=suspension_may_raise, name=Q)

        def sends(node):
            out = []
            if node.ast is None or node.kind not in ("stmt", "test"):
                return out
            for c in _walk_no_nested(node.ast):
                if isinstance(c, ast.Call) and isinstance(
                        c.func, ast.Attribute) and c.func.attr == "send" \
                        and unparse(c.func.value) == seqp and len(
                            c.args) == 1:
                    out.append(c)
            return out

        def tr(node, w):
            # the send reads the variable before the statement's own
            # assignment (`cmd = seq.send(response)`) takes effect
            for c in sends(node):
                if isinstance(c.args[0], ast.Name):
                    w = w | {("delivered", c.args[0].id)}
            if node.kind == "stmt" and node.ast is not None:
                for nm in assigned_names(node.ast):
                    w = w - {("delivered", nm)}
            return w
        W = forward_worlds(cfg, tr)
        for n in cfg.reachable:
            for c in sends(n):
                n_sites += 1
                a = c.args[0]
                ok = isinstance(a, ast.Constant) or (
                    isinstance(a, ast.Name) and not any(
                        ("delivered", a.id) in w for w in W.at(n)))
                bw = [w for w in W.at(n) if isinstance(a, ast.Name) and
                      ("delivered", a.id) in w]
                run.ob("R-SEQ-ANSWER", Q, ok,
                       "`%s` can hand the generator a value it was already "
                       "given at the previous step (no assignment of `%s` on "
                       "the path %s): a sleep / progress step is answered "
                       "with the preceding query's response" % (
                           unparse(c), unparse(a), " -> ".join(
                               "L%s" % x.lineno for x in W.trace(n, bw[0])[-8:]
                               if x.lineno) if bw else ""),
                       where(mod, c),
                       sample={"rule": "R-SEQ-ANSWER", "function": Q})
    run.floor("generator send sites in run_sequence", n_sites, 2)
    # (the legacy synchronous hasseb driver, dali/driver/hasseb.py, is not
    # among the drivers C16 names; its run_sequence has no such reset)


def _noquery_prefixes(world, folder):
    """Line prefixes 'h' + address byte (hex) of the 16-bit special
    commands that expect no answer, from the command table."""
    from .. import cmdtable
    rx = cmdtable.registries(world, folder)
    out = set()
    for r in cmdtable.extract(world, folder, rx):
        if r.family == "_SpecialCommand" and isinstance(r.cmdval, int) \
                and r.answer is None:
            out.add("h%02X" % r.cmdval)
    return out


def _atx_answer_arg(run, world, folder, mod, Q, fn, call, cv):
    """ATX hat: what `command.response(<local>)` is given, per path.  The
    local holds a raw text line after `read_line()` and a frame / None after
    `extract()`; a raw line makes Response.__init__ raise TypeError.  Two
    obligations: the path that breaks out of the read loop on an 'X' line,
    and every other path."""
    from ..cfg import forward_worlds, explicit_raise_only
    from ..seq import cond_edge_transfer, kill_conds_on_assign, assigned_names
    arg = call.args[0].id
    cfg = CFG(fn, may_raise=explicit_raise_only, name=Q)

    def kind_of(v, w):
        if isinstance(v, ast.Constant) and v.value is None:
            return "none"
        if isinstance(v, ast.Call) and isinstance(v.func, ast.Attribute):
            if v.func.attr == "read_line":
                return "raw"
            if v.func.attr == "extract":
                return "frame"
        if isinstance(v, ast.Call):
            k = unparse(v.func).split(".")[-1]
            if k in ("BackwardFrame", "BackwardFrameError"):
                return "frame"
        if isinstance(v, ast.Name):
            for f in w:
                if f[0] == "kind" and f[1] == v.id:
                    return f[2]
        return "other"

    def tr(node, w):
        w = kill_conds_on_assign(node, w)
        a = node.ast
        if node.kind == "stmt" and a is not None:
            names = assigned_names(a)
            if names:
                new = None
                if isinstance(a, ast.Assign) and len(a.targets) == 1 and \
                        isinstance(a.targets[0], ast.Name):
                    new = ("kind", a.targets[0].id, kind_of(a.value, w))
                w = frozenset(f for f in w if not (
                    f[0] == "kind" and f[1] in names))
                if new is not None:
                    w = w | {new}
        return w
    W = forward_worlds(cfg, tr, cond_edge_transfer(), max_worlds=40000)
    node = None
    for n in cfg.reachable:
        if n.ast is not None and n.kind in ("stmt", "test") and any(
                x is call for x in ast.walk(n.ast)):
            node = n
    if node is None:
        raise AnalysisError("%s: the response construction is not in the "
                            "CFG" % Q)
    noq = _noquery_prefixes(world, folder)

    def only_nonqueries(w):
        """the path has established that the line sent starts with the
        prefix of a command that expects no answer (the hat's special
        handling of the search-address commands): `command.is_query` is
        false there, whatever the test says"""
        for f in w:
            if f[0] != "cond" or f[2] is not True or " in " not in f[1]:
                continue
            try:
                t_ = ast.parse(f[1], mode="eval").body
            except SyntaxError:
                continue
            if isinstance(t_, ast.Compare) and isinstance(
                    t_.ops[0], ast.In) and isinstance(
                        t_.comparators[0], (ast.List, ast.Tuple, ast.Set)):
                vals = [x.value for x in t_.comparators[0].elts
                        if isinstance(x, ast.Constant)]
                if vals and len(vals) == len(
                        t_.comparators[0].elts) and all(
                            isinstance(v, str) and v in noq for v in vals):
                    return True
        return False
    after_x, other = [], []
    for w in W.at(node):
        if only_nonqueries(w) and _query_of(w, cv) is True:
            continue
        k = [f[2] for f in w if f[0] == "kind" and f[1] == arg]
        if not k or k[0] != "raw":
            if k and k[0] == "other":
                other.append(w)
            continue
        is_x = any(f[0] == "cond" and f[2] is True and
                   (arg + "[0]") in f[1] and "'X'" in f[1] and
                   " == " in f[1] for f in w)
        (after_x if is_x else other).append(w)

    def show(ws):
        return " -> ".join("L%s" % x.lineno for x in W.trace(
            node, ws[0])[-8:] if x.lineno) if ws else ""
    run.ob("R-RSITE", "%s#%s.response" % (Q, cv), not after_x,
           "`%s` - argument is not None / BackwardFrame / "
           "BackwardFrameError" % unparse(call)[:70], where(mod, call),
           sample={"rule": "R-RSITE", "site": unparse(call)[:80],
                   "function": Q, "paths": "after an 'X' line"})
    run.ob("R-RSITE", "%s#%s.response[other paths]" % (Q, cv), not other,
           "`%s` is given a raw text line (or something that is neither a "
           "frame nor None) on a path other than the break on an 'X' line "
           "(%s): Response.__init__ raises TypeError where the command's "
           "response should be returned" % (unparse(call)[:60], show(other)),
           where(mod, call))


def _check_confirmations(run, repo, world):
    """LUBA: the gateway confirms every transmission, two for a send-twice
    command.  The sender takes exactly that many from the confirmation queue
    before it lets go of the transmit lock - one left behind is taken by the
    next command as its own, whose answer window then opens too early."""
    run.rule("R-CONFIRM", "LUBA send: one confirmation consumed per "
             "transmission (2 for send-twice) on every path, none left "
             "queued")
    cq = SER + ".DriverLubaRs232.LubaProtocol"
    owner, fn = _fn(world, cq, "send_dali_command")
    mod = repo.mod(SER)
    Q = cq + ".send_dali_command"
    txp = fn.args.args[1].arg
    loops = [n for n in ast.walk(fn) if isinstance(n, (ast.While, ast.For))
             and any(isinstance(c, ast.Call) and unparse(c.func).endswith(
                 "_queue_tx_conf.get") for c in ast.walk(n))]
    if len(loops) != 1:
        raise AnalysisError("%s: the confirmation wait is not a single loop "
                            "over _queue_tx_conf.get()" % Q)
    lp = loops[0]
    want = ("2 if %s.sendtwice else 1" % txp, "1 + %s.sendtwice" % txp,
            "%s.sendtwice + 1" % txp, "1 + bool(%s.sendtwice)" % txp)
    from .. import astq
    why = []
    escapes = [x for s_ in lp.body for x in _walk_no_nested(s_)
               if isinstance(x, (ast.Break, ast.Return))]
    # (a break nested in an inner loop of its own does not leave this one;
    # there is none on the pinned tree, so any is reported)
    if escapes:
        why.append("the wait loop is left early by `%s` at line %s" % (
            type(escapes[0]).__name__.lower(), escapes[0].lineno))
    if isinstance(lp, ast.For):
        it = lp.iter
        okn = isinstance(it, ast.Call) and unparse(it.func) == "range" and \
            len(it.args) == 1 and astq.canon(fn, it.args[0]) in want
        if not okn:
            why.append("the loop runs over `%s`, not once per transmission"
                       % unparse(it, 60))
    else:
        t = lp.test
        cnt = None
        if isinstance(t, ast.Compare) and len(t.ops) == 1 and isinstance(
                t.left, ast.Name) and isinstance(
                    t.ops[0], (ast.Gt, ast.NotEq)) and unparse(
                        t.comparators[0]) == "0":
            cnt = t.left.id
        elif isinstance(t, ast.Name):
            cnt = t.id
        if cnt is None:
            raise AnalysisError("%s: the confirmation loop's condition `%s` "
                                "is not a counter test" % (Q, unparse(t)))
        inits = [n.value for n in ast.walk(fn) if isinstance(n, ast.Assign)
                 and any(isinstance(x, ast.Name) and x.id == cnt
                         for x in n.targets)]
        if len(inits) != 1 or astq.canon(fn, inits[0]) not in want:
            why.append("the counter starts at `%s`" % (
                unparse(inits[0], 50) if inits else None))
        # exactly one decrement on every path through the body
        stub = ast.FunctionDef(name="iteration", args=ast.arguments(
            posonlyargs=[], args=[], kwonlyargs=[], kw_defaults=[],
            defaults=[]), body=list(lp.body), decorator_list=[],
            returns=None, type_comment=None, type_params=[])
        if escapes:
            stub.body = [ast.Pass()]
        cfgb = CFG(stub, may_raise=lambda n: False, name=Q + "#iteration")
        from ..cfg import forward_worlds

        def tr(node, w):
            a = node.ast
            if node.kind == "stmt" and isinstance(a, ast.AugAssign) and \
                    isinstance(a.target, ast.Name) and a.target.id == cnt:
                k = [f for f in w if f[0] == "dec"]
                n_ = (k[0][1] if k else 0) + (
                    1 if isinstance(a.op, ast.Sub) and unparse(
                        a.value) == "1" else 99)
                w = frozenset(f for f in w if f[0] != "dec") | {("dec", n_)}
            elif node.kind == "stmt" and a is not None and any(
                    isinstance(x, ast.Name) and x.id == cnt and isinstance(
                        x.ctx, ast.Store) for x in ast.walk(a)):
                w = frozenset(f for f in w if f[0] != "dec") | {("dec", 99)}
            return w
        Wb = forward_worlds(cfgb, tr)
        decs = {([f[1] for f in w if f[0] == "dec"] or [0])[0]
                for w in Wb.at(cfgb.exit)}
        if decs != {1} and not escapes:
            why.append("an iteration changes the counter by %s (must be "
                       "exactly one decrement per confirmation)" % sorted(
                           decs))
    gets = [c for c in ast.walk(lp) if isinstance(c, ast.Call) and unparse(
        c.func).endswith("_queue_tx_conf.get")]
    if len(gets) != 1:
        why.append("%d reads of the confirmation queue per iteration"
                   % len(gets))
    run.ob("R-CONFIRM", Q, not why,
           "; ".join(why) + ": a send-twice command leaves a confirmation "
           "queued (or waits for one that never comes), and the next command "
           "takes it for its own", where(mod, lp),
           sample={"rule": "R-CONFIRM", "function": Q})
