"""C03 - frames and flags conform to the IEC 62386 tables: R-SPEC (finite,
two-way table comparison of opcode / parameter kind / device type /
send-twice / answer kind / registry placement) and R-LAYOUT (frame
templates, via the codec interpreter when available)."""
import ast

from ..core import AnalysisError, unparse, where
from ..fold import Folder
from ..front import ClassInfo
from .. import cmdtable


def check(run, repo, world):
    run.explanation = (
        "Finite, exhaustive table comparison.  The library's command table "
        "is extracted from the class table (attributes resolved through the "
        "MRO and folded: opcode constants, parameter kind, device type, "
        "send-twice, answer kind by subclass test of the response class) and "
        "from the decode registries produced by interpreting the "
        "registration code; it is compared both ways with "
        "spec/iec62386_tables.txt, transcribed by hand from IEC 62386 parts "
        "102, 103, 202, 205, 206, 207, 209, 301, 303, 304: every spec row "
        "has a class of that name with equal data registered under the "
        "spec's key (all 16 keys for nibble-parameter commands), and every "
        "concrete class appears in the spec (a class missing from the spec "
        "is UNSPECIFIED = exit 2, never a silent pass).  Frame layouts "
        "(address byte, selector bit, opcode position, special-command "
        "bytes, event scheme bits) are compared in R-LAYOUT by abstract "
        "interpretation of the constructors.")
    run.assumptions += ["spec/iec62386_tables.txt is a faithful "
                        "transcription (one row is marked as uncertain and "
                        "not armed)"]
    folder = Folder(world)
    rx = cmdtable.registries(world, folder)
    rows = cmdtable.extract(world, folder, rx)
    run.floor("concrete command classes", len(rows), 329, defer=True)
    spec = cmdtable.load_spec()
    run.exhaustive = True
    byname = {}
    for r in rows:
        byname.setdefault((r.mod, r.name), r)

    def reg(qname, attr):
        o = rx.obj(world.cls(qname))
        d = o.ns.get(attr)
        if d is None:
            d = rx.getattr_cls(o, attr)
        return d

    std = reg("dali.gear.general._StandardCommand", "_opcodes")
    spc = reg("dali.gear.general._SpecialCommand", "_opcodes")
    dev = reg("dali.device.general._StandardDeviceCommand", "_opcodes")
    ins = reg("dali.device.general._StandardInstanceCommand", "_opcodes")
    # (sizes are reported, not floored: R-SPEC checks every key itself)
    run.analysed["standard gear registry keys"] = len(std)
    run.analysed["special gear opcodes"] = len(spc)
    run.analysed["device opcodes"] = len([k for k in dev if k is not None])
    run.analysed["instance opcodes"] = len([k for k in ins
                                            if k is not None])
    covered = set()
    run.rule("R-SPEC", "command table == transcribed IEC 62386 tables (both "
             "directions)")

    MODS = {"102": "dali.gear.general", "202": "dali.gear.emergency",
            "205": "dali.gear.incandescent", "206": "dali.gear.converter",
            "207": "dali.gear.led", "209": "dali.gear.colour",
            "103": "dali.device.general", "301": "dali.device.pushbutton",
            "303": "dali.device.occupancy", "304": "dali.device.light"}

    def compare(sec, row, r, want_family, regd, keys, extra=()):
        problems = list(extra)
        if r is None:
            run.ob("R-SPEC", "%s:%s" % (sec, row["name"]), False,
                   "the standard's command %s (code %s) is not implemented "
                   "under that name in %s" % (row["name"], hex(row["code"]),
                                              sec))
            return
        covered.add(r.cls)
        mod = repo.mod(r.mod)
        if want_family and r.family not in want_family:
            problems.append("family %s, expected %s" % (r.family,
                                                        want_family))
        if row["twice"] is not None and bool(r.sendtwice) != row["twice"]:
            problems.append("sendtwice=%s, standard says %s" % (
                bool(r.sendtwice), row["twice"]))
        if r.answer != row["answer"]:
            problems.append("answer kind %s, standard says %s" % (
                r.answer or "none", row["answer"] or "none"))
        if regd is not None:
            for k in keys:
                got = regd.get(k)
                if got is None or got.info is not r.cls:
                    problems.append(
                        "decode registry key %r -> %s" % (
                            k, got.info.name if got is not None else None))
        run.ob("R-SPEC", "%s:%s" % (sec.split()[0] + "/" + sec.split()[1],
                                    row["name"]), not problems,
               "; ".join(problems), where(mod, r.cls.node),
               sample={"rule": "R-SPEC", "section": sec, "command":
                       row["name"], "code": row["code"],
                       "twice": bool(r.sendtwice), "answer": r.answer}
               if row["name"] in ("SetScene", "Compare", "QueryColourValue")
               else None)

    for sec, srows in spec.items():
        part = sec.split()[0]
        kind = sec.split()[1]
        modname = MODS.get(part)
        if kind == "standard":
            dt = int(sec.split("dt=")[1])
            for row in srows:
                r = byname.get((modname, row["name"]))
                extra = []
                keys = []
                if r is not None:
                    if r.cmdval != row["code"]:
                        extra.append("opcode %s, standard %d" % (
                            r.cmdval, row["code"]))
                    if bool(r.hasparam) != (row["param"] == "P4"):
                        extra.append("4-bit parameter=%s, standard %s" % (
                            bool(r.hasparam), row["param"]))
                    if r.devicetype != dt:
                        extra.append("devicetype %s, standard %d" % (
                            r.devicetype, dt))
                    n = 16 if row["param"] == "P4" else 1
                    if row["param"] == "P4" and row["code"] & 0x0f:
                        extra.append("nibble command not 16-aligned")
                    keys = [(dt, row["code"] + x) for x in range(n)]
                compare(sec, row, r, ("_StandardCommand",), std, keys, extra)
        elif sec == "102 special":
            for row in srows:
                r = byname.get((modname, row["name"]))
                extra = []
                if r is not None:
                    if r.cmdval != row["code"]:
                        extra.append("address byte %s, standard 0x%02X" % (
                            r.cmdval, row["code"]))
                    want_p = row["param"] in ("P8", "PA")
                    if bool(r.hasparam) != want_p:
                        extra.append("parameter byte=%s, standard %s" % (
                            bool(r.hasparam), row["param"]))
                    if (r.family == "_ShortAddrSpecialCommand") != (
                            row["param"] == "PA"):
                        extra.append("short-address parameter form mismatch")
                compare(sec, row, r, ("_SpecialCommand",
                                      "_ShortAddrSpecialCommand"), spc,
                        [row["code"]], extra)
        elif sec == "103 device":
            for row in srows:
                r = byname.get((modname, row["name"]))
                extra = []
                if r is not None and r.opcode != row["code"]:
                    extra.append("opcode %s, standard 0x%02X" % (
                        r.opcode, row["code"]))
                compare(sec, row, r, ("_StandardDeviceCommand",), dev,
                        [row["code"]], extra)
        elif kind == "instance":
            for row in srows:
                r = byname.get((modname, row["name"]))
                extra = []
                if r is not None and r.opcode != row["code"]:
                    extra.append("opcode %s, standard 0x%02X" % (
                        r.opcode, row["code"]))
                compare(sec, row, r, ("_StandardInstanceCommand",), ins,
                        [row["code"]], extra)
        elif sec.startswith("103 special addr="):
            addr = int(sec.split("addr=")[1], 0)
            for row in srows:
                r = byname.get((modname, row["name"]))
                extra = []
                if r is not None:
                    if r.addr != addr or r.instance != row["code"]:
                        extra.append("bytes (%s, %s), standard (0x%02X, "
                                     "0x%02X)" % (r.addr, r.instance, addr,
                                                  row["code"]))
                    names = [k.name for k in r.cls.mro
                             if isinstance(k, ClassInfo)]
                    one = "_SpecialDeviceCommandOneParam" in names
                    if one != (row["param"] == "P8"):
                        extra.append("parameter byte=%s, standard %s" % (
                            one, row["param"]))
                compare(sec, row, r, ("_SpecialDeviceCommand",), None, [],
                        extra)
        elif sec == "103 special2":
            for row in srows:
                r = byname.get((modname, row["name"]))
                extra = []
                if r is not None:
                    if r.addr != row["code"]:
                        extra.append("address byte %s, standard 0x%02X" % (
                            r.addr, row["code"]))
                    names = [k.name for k in r.cls.mro
                             if isinstance(k, ClassInfo)]
                    if "_SpecialDeviceCommandTwoParam" not in names:
                        extra.append("must carry two data bytes")
                compare(sec, row, r, ("_SpecialDeviceCommand",), None, [],
                        extra)
        elif sec == "301 events":
            pb = world.cls("dali.device.pushbutton._PushbuttonEvent") \
                if "dali.device.pushbutton._PushbuttonEvent" in \
                world.classes else None
            table = None
            if pb is not None:
                o = rx.obj(pb)
                table = o.ns.get("_event_classes")
                if table is None:
                    try:
                        table = rx.getattr_cls(o, "_event_classes")
                    except AnalysisError:
                        table = None
            for row in srows:
                r = byname.get((modname, row["name"]))
                extra = []
                if table is not None:
                    got = table.get(row["code"])
                    if got is None or r is None or got.info is not r.cls:
                        extra.append("event code 0x%03X -> %s" % (
                            row["code"], got.info.name if got is not None
                            else None))
                else:
                    extra.append("push-button event code table not found")
                compare(sec, row, r, ("_Event",), None, [], extra)
        else:
            raise AnalysisError("unknown spec section %s" % sec)
    # instance type constants of the 30x modules
    for part, t in (("301", 1), ("303", 3), ("304", 4)):
        m = MODS[part]
        b = world.lookup(m, "instance_type")
        v = folder.eval(b.value, {}, b.mod) if b is not None and \
            b.kind == "expr" else None
        run.ob("R-SPEC", "%s#instance_type" % m, v == t,
               "module instance_type is %s, IEC 62386-%s defines instance "
               "type %d" % (v, part, t), repo.mod(m).relpath)
    # every concrete class is specified (or is a generic fallback class)
    generic = {"UnknownGearCommand", "UnknownDeviceCommand", "UnknownEvent",
               "AmbiguousInstanceType", "DAPC", "OccupancyEvent",
               "LightEvent"}
    for r in rows:
        if r.cls in covered or r.name in generic:
            continue
        raise AnalysisError(
            "UNSPECIFIED command class %s.%s: add its row to "
            "spec/iec62386_tables.txt from the standard before C03 can be "
            "decided" % (r.mod, r.name))
    run.analysed["spec rows"] = sum(len(v) for v in spec.values())
    run.analysed["classes covered by the spec"] = len(covered)
    # no key of a decode registry points at a class the spec does not place
    # there
    extra_keys = []
    want_std = set()
    for sec, srows in spec.items():
        if sec.split()[1] == "standard":
            dt = int(sec.split("dt=")[1])
            for row in srows:
                n = 16 if row["param"] == "P4" else 1
                want_std |= {(dt, row["code"] + x) for x in range(n)}
    for k in std:
        if k not in want_std:
            extra_keys.append(k)
    run.ob("R-SPEC", "dali.gear.general._StandardCommand._opcodes#extra-keys",
           not extra_keys, "decode registry has keys the standard does not "
           "define: %s" % extra_keys[:6],
           repo.mod("dali.gear.general").relpath)
    try:
        from .codec_layout import check_layouts
    except ImportError:
        check_layouts = None
    if check_layouts is not None:
        check_layouts(run, repo, world, folder, rx)
