"""C07 - commissioning: structural clauses decided on the generator CFGs of
dali.sequences.Commissioning and _find_next (DESIGN.md section 3, C07)."""
import ast

from ..core import AnalysisError, unparse, where
from ..cfg import forward, forward_worlds, find_path, path_str
from ..normal import normalise
from ..seq import (gen_cfg, yields_of, cond_edge_transfer,
                   kill_conds_on_assign, assigned_names, _is_attr_chain)
from ..cfg import _walk_no_nested

MOD = "dali.sequences"
GEAR = "dali.gear.general."


def _is(y, name):
    return y.cls is not None and y.cls.qname == GEAR + name


def _const_bool(e):
    return isinstance(e, ast.Constant) and isinstance(e.value, bool)


def _role_names(fn):
    """Locals of Commissioning renamed after the role they play:
       A = yield from _find_next(A, B)      A -> low, B -> high
       while not F: (the outer search loop)  F -> finished"""
    ren = {}
    for n in ast.walk(fn):
        if isinstance(n, ast.Assign) and len(n.targets) == 1 and isinstance(
                n.targets[0], ast.Name) and isinstance(
                    n.value, ast.YieldFrom) and isinstance(
                        n.value.value, ast.Call) and unparse(
                            n.value.value.func) == "_find_next" and len(
                                n.value.value.args) == 2 and all(
                                    isinstance(a, ast.Name)
                                    for a in n.value.value.args) and \
                n.value.value.args[0].id == n.targets[0].id:
            ren[n.targets[0].id] = "low"
            ren[n.value.value.args[1].id] = "high"
    flags = {n.test.operand.id for n in ast.walk(fn) if isinstance(
        n, ast.While) and isinstance(n.test, ast.UnaryOp) and isinstance(
            n.test.op, ast.Not) and isinstance(n.test.operand, ast.Name)}
    if len(flags) == 1:
        ren[flags.pop()] = "finished"
    ren = {k: v for k, v in ren.items() if k != v}
    if not ren:
        return fn
    taken = {n.id for n in ast.walk(fn) if isinstance(n, ast.Name)} | {
        a.arg for a in fn.args.args + fn.args.kwonlyargs}
    if any(v in taken and v not in ren for v in ren.values()) or len(
            set(ren.values())) != len(ren):
        return fn
    from ..inline import acopy
    fn = acopy(fn)
    for n in ast.walk(fn):
        if isinstance(n, ast.Name) and n.id in ren:
            n.id = ren[n.id]
    return fn


def _coalesce_search_result(fn):
    """`X = yield from _find_next(L, H)` with X another local than L, where
    L is dead from that statement on until it is assigned again (no path
    reads L before a store to it): X and L never hold a value at the same
    time that anybody looks at, so X is written back as L - the one-variable
    form the rules read.  fn is returned unchanged when L is live."""
    from ..cfg import CFG as _CFG, suspension_may_raise as _smr
    from ..inline import acopy
    site = None
    for n in ast.walk(fn):
        if isinstance(n, ast.Assign) and len(n.targets) == 1 and isinstance(
                n.targets[0], ast.Name) and isinstance(
                    n.value, ast.YieldFrom) and isinstance(
                        n.value.value, ast.Call) and unparse(
                            n.value.value.func) == "_find_next" and len(
                                n.value.value.args) == 2 and all(
                                    isinstance(a, ast.Name)
                                    for a in n.value.value.args) and \
                n.value.value.args[0].id != n.targets[0].id:
            if site is not None:
                return fn
            site = n
    if site is None:
        return fn
    X, L = site.targets[0].id, site.value.value.args[0].id
    # X is stored nowhere else
    if sum(1 for n in ast.walk(fn) if isinstance(n, ast.Name) and
           n.id == X and isinstance(n.ctx, ast.Store)) != 1:
        return fn
    cfg = _CFG(fn, may_raise=_smr, name="Commissioning")
    start = [n for n in cfg.reachable if n.ast is site]
    if len(start) != 1:
        return fn

    def loads_stores(node):
        a = node.ast
        if a is None:
            return False, False
        root = a
        if node.kind == "for":
            root = a.iter
        elif node.kind in ("test",):
            root = a
        ld = st = False
        for x in ast.walk(root) if not isinstance(
                root, (ast.For, ast.While, ast.If, ast.Try, ast.With)) \
                else []:
            if isinstance(x, ast.Name) and x.id == L:
                if isinstance(x.ctx, ast.Load):
                    ld = True
                else:
                    st = True
        if node.kind == "for" and any(isinstance(
                x, ast.Name) and x.id == L for x in ast.walk(a.target)):
            st = True
        return ld, st
    seen, stack = set(), [m for (l, m) in start[0].succ]
    while stack:
        n = stack.pop()
        if n.id in seen:
            continue
        seen.add(n.id)
        if n is start[0]:
            # back at the search without a store: its argument reads L
            return fn
        ld, st = loads_stores(n)
        if ld:
            return fn
        if st:
            continue
        stack += [m for (l, m) in n.succ]
    out = acopy(fn)
    for n in ast.walk(out):
        if isinstance(n, ast.Name) and n.id == X:
            n.id = L
    return out


def check(run, repo, world):
    run.explanation = (
        "Decides the structural clauses of C07 on the generator CFGs of "
        "Commissioning/_find_next, for every path (hence every answer stream): "
        "Terminate on every normal exit, address-changing commands only under "
        "a false dry_run, Program->Verify->raise pairing, linear use of the "
        "address pool with in-use discovery, clash marker iff framing error, "
        "no re-randomisation while programmed+withdrawn units are still "
        "initialised.  NOT decided: termination/command bound under all "
        "random-address histories (run-time draws).")
    run.assumptions += [
        "generators are driven by send(None|Response) as the drivers do",
        "IEC 62386-102: RANDOMISE / PROGRAM SHORT ADDRESS act on every unit "
        "whose initialisationState is not DISABLED, including withdrawn ones",
    ]
    mod = repo.mod(MOD)
    m, fn, _ = world.func(MOD + ".Commissioning")
    fn = _coalesce_search_result(fn)
    fn = _role_names(fn)
    fn = normalise(fn, world, MOD, primitives=("_find_next", "progress"),
                   aliases="params", lift_values=True)
    cfg = gen_cfg(fn, MOD + ".Commissioning")
    ys = yields_of(cfg, world, MOD)
    run.floor("Commissioning yields", len(ys), 15)
    params = [a.arg for a in fn.args.args]
    for p in ("available_addresses", "readdress", "dry_run"):
        if p not in params:
            raise AnalysisError("Commissioning lost parameter %s" % p)
    C = MOD + ".Commissioning"

    # immutability of the mode parameters (needed for guard reasoning)
    reassigned = set()
    for n in cfg.reachable:
        if n.ast is not None and n.kind in ("stmt", "for"):
            reassigned |= assigned_names(
                n.ast if n.kind == "stmt" else n.ast.target)
    for p in ("dry_run", "readdress"):
        run.ob("R-COMM-PARAM", C + "#" + p, p not in reassigned,
               "mode parameter %s is reassigned inside the sequence" % p,
               where(mod, fn))

    cet = cond_edge_transfer()

    def base_transfer(node, st):
        return kill_conds_on_assign(node, st)

    # one path-sensitive analysis ("worlds") carries condition facts and
    # the bus typestate facts used by the rules below
    ynode = {y.node.id: y for y in ys}
    inits = [y for y in ys if _is(y, "Initialise")]
    terms = [y for y in ys if _is(y, "Terminate")]
    ssa = [y for y in ys if _is(y, "SetShortAddress")]
    qp = [y for y in ys if _is(y, "QueryControlGearPresent")]
    run.floor("Initialise yields", len(inits), 1)
    run.floor("Terminate yields", len(terms), 1)
    disc_loops = _discovery_loops(cfg, qp)

    def transfer(node, st):
        st = kill_conds_on_assign(node, st)
        y = ynode.get(node.id)
        if y is None:
            return st
        if _is(y, "Terminate"):
            st = st | {"terminated"}
            if "prog_withdrawn" in st:
                st = (st - {"prog_withdrawn"}) | {"pw_term"}
            return st - {"programmed"}
        if _is(y, "Initialise"):
            st = st - {"terminated"}
            b = y.arg(None, kw="broadcast")
            nonb = b is None or (_const_bool(b) and b.value is False)
            if "pw_term" in st:
                st = st - {"pw_term"}
                if not nonb:
                    st = st | {"prog_withdrawn"}
            return st
        if _is(y, "SetShortAddress"):
            return st | {"cleared"}
        if _is(y, "ProgramShortAddress"):
            return st | {"programmed"}
        if _is(y, "Withdraw") and "programmed" in st:
            return st | {"prog_withdrawn"}
        if _is(y, "Randomise"):
            return st | {"randomised"}
        return st

    def edge(src, label, dst, st):
        st = cet(src, label, dst, st)
        if st is None:
            return None
        if src.kind == "for" and label == "done" and src.id in disc_loops:
            st = st | {"scanned"}
        return st
    W = forward_worlds(cfg, transfer, edge)
    run.analysed["worlds at exit"] = len(W.at(cfg.exit))

    # ---- R-COMM-INIT ------------------------------------------------------
    run.rule("R-COMM-INIT", "every Initialise directly follows a Terminate "
             "(only progress / sleep items between): units left in "
             "initialisation state by an earlier, interrupted run do not "
             "take part")
    for y in inits:
        prev = _prev_commands(cfg, y.node, ynode)
        ok = bool(prev) and all(p is not None and _is(p, "Terminate")
                                for p in prev)
        run.ob("R-COMM-INIT", "%s#Initialise@%s" % (
            C, "first" if y is inits[0] else "restart"), ok,
            "Initialise can be reached with %s as the previous command; "
            "without a Terminate first, a unit that is still in "
            "initialisation state from an earlier run takes part although "
            "it is not one of the units to be addressed" % sorted(
                {p.name if p is not None else "<start>" for p in prev
                 if p is None or not _is(p, "Terminate")}),
            where(mod, y.node))

    # ---- R-COMM-TERM ------------------------------------------------------
    run.rule("R-COMM-TERM", "every normal exit passes `yield Terminate()` "
             "after the last Initialise")
    bad = W.worlds_with(cfg.exit, lambda w: "terminated" not in w)
    msg = ""
    if bad:
        msg = ("a normal exit is reachable after Initialise without a "
               "Terminate: %s" % path_str(W.trace(cfg.exit, bad[0]), 14))
    run.ob("R-COMM-TERM", C + "#exit", W.reached(cfg.exit) and not bad, msg,
           where(mod, fn),
           sample={"rule": "R-COMM-TERM", "worlds_at_exit": [
               sorted(f for f in w if isinstance(f, str))
               for w in W.at(cfg.exit)][:4]})

    # ---- R-COMM-DRY -------------------------------------------------------
    run.rule("R-COMM-DRY", "SetShortAddress/ProgramShortAddress only where "
             "dry_run is known false")
    changing = [y for y in ys if _is(y, "SetShortAddress")
                or _is(y, "ProgramShortAddress")]
    run.floor("address-changing yields", len(changing), 2, defer=True)
    for y in changing:
        ok = W.must(y.node, ("cond", "dry_run", False))
        run.ob("R-COMM-DRY", C + "#yield " + y.name, ok,
               "%s is yielded on a path where dry_run may be true" % y.name,
               where(mod, y.node),
               sample={"rule": "R-COMM-DRY", "yield": unparse(y.expr),
                       "dry_run_false_on_all_paths": ok})

    # ---- R-COMM-CLEAR -----------------------------------------------------
    run.rule("R-COMM-CLEAR", "re-addressing clears every address "
             "(DTR0(255) then SetShortAddress(Broadcast())) and Initialise "
             "is broadcast iff readdress")
    for y in ssa:
        ok_guard = W.must(y.node, ("cond", "readdress", True))
        a0 = y.arg(0)
        dest_ok = False
        if isinstance(a0, ast.Call):
            c = world.resolve_class(MOD, a0.func)
            dest_ok = c is not None and c.qname == \
                "dali.address.GearBroadcast" and not a0.args
        preds = _prev_yields(cfg, y.node, ynode)
        dtr_ok = bool(preds) and all(
            p is not None and _is(p, "DTR0") and isinstance(
                p.arg(0), ast.Constant) and p.arg(0).value == 255
            for p in preds)
        run.ob("R-COMM-CLEAR", C + "#SetShortAddress",
               ok_guard and dest_ok and dtr_ok,
               "clearing of existing addresses must be DTR0(255) immediately "
               "followed by SetShortAddress(Broadcast()) under `readdress` "
               "(guard=%s dest=%s dtr0=%s)" % (ok_guard, dest_ok, dtr_ok),
               where(mod, y.node))
    for y in inits:
        first = not W.may(y.node, "randomised")
        if not first:
            continue
        # (a path that never asked about dry_run is also one on which
        # dry_run may be off)
        bad = W.worlds_with(y.node, lambda w: (
            ("cond", "readdress", True) in w and
            ("cond", "dry_run", True) not in w and "cleared" not in w))
        # worlds where the mode is unknown count as possibly re-addressing
        bad += W.worlds_with(y.node, lambda w: (
            "cleared" not in w and "scanned" not in w and
            ("cond", "readdress", False) not in w and
            ("cond", "dry_run", True) not in w and
            ("cond", "readdress", True) not in w))
        run.ob("R-COMM-CLEAR", C + "#Initialise reached uncleared", not bad,
               "with readdress and not dry_run, Initialise is reachable "
               "without clearing existing addresses: %s"
               % (path_str(W.trace(y.node, bad[0]), 12) if bad else ""),
               where(mod, y.node))
        b = y.arg(None, kw="broadcast")
        bok = False
        if b is not None:
            if isinstance(b, ast.Name) and b.id == "readdress":
                bok = True
            elif isinstance(b, ast.IfExp) and isinstance(b.test, ast.Name) \
                    and b.test.id == "readdress" and _const_bool(b.body) \
                    and _const_bool(b.orelse) and b.body.value is True \
                    and b.orelse.value is False:
                bok = True
            elif isinstance(b, ast.Call) and isinstance(b.func, ast.Name) \
                    and b.func.id == "bool" and len(b.args) == 1 and \
                    isinstance(b.args[0], ast.Name) and \
                    b.args[0].id == "readdress":
                bok = True
            elif _const_bool(b):
                bok = W.must(y.node, ("cond", "readdress", b.value))
        run.ob("R-COMM-CLEAR", C + "#Initialise(broadcast)", bok,
               "first Initialise must be broadcast exactly when "
               "readdress is set (got %s)" % (unparse(b) if b is not None
                                              else "no broadcast arg"),
               where(mod, y.node))
        # discovery must have happened when not re-addressing
        badd = W.worlds_with(y.node, lambda w: (
            ("cond", "readdress", True) not in w and "scanned" not in w))
        run.ob("R-COMM-POOL", C + "#discovery-before-Initialise", not badd,
               "Initialise reachable without in-use discovery when not "
               "re-addressing: %s" % (path_str(W.trace(
                   y.node, badd[0]), 12) if badd else ""),
               where(mod, y.node))

    # ---- R-COMM-VERIFY ----------------------------------------------------
    run.rule("R-COMM-VERIFY", "ProgramShortAddress(x) is immediately "
             "followed by r = yield VerifyShortAddress(x); every path on "
             "which r.value is True is not established raises "
             "ProgramShortAddressFailure")
    progs = [y for y in ys if _is(y, "ProgramShortAddress")]
    run.floor("ProgramShortAddress yields", len(progs), 1)
    for y in progs:
        nxt = _next_yields(cfg, y.node, ynode)
        x = unparse(y.arg(0)) if y.arg(0) is not None else None
        ok = bool(nxt) and all(
            v is not None and _is(v, "VerifyShortAddress")
            and v.target is not None
            and v.arg(0) is not None and unparse(v.arg(0)) == x
            for v in nxt)
        run.ob("R-COMM-VERIFY", C + "#ProgramShortAddress->Verify", ok,
               "the yield after ProgramShortAddress(%s) is not "
               "`r = yield VerifyShortAddress(%s)` on every path: %s"
               % (x, x, [repr(v) for v in nxt]), where(mod, y.node))
        for v in nxt:
            if v is None or not _is(v, "VerifyShortAddress") or not v.target:
                continue
            r = v.target
            bad = _unverified_escape(cfg, v.node, r, ynode, world)
            run.ob("R-COMM-VERIFY", C + "#Verify->raise", bad is None,
                   "after %s the sequence can continue without "
                   "`%s.value is True` being established and without raising "
                   "ProgramShortAddressFailure: %s" % (
                       unparse(v.expr), r, bad or ""), where(mod, v.node),
                   sample={"rule": "R-COMM-VERIFY", "verify": unparse(
                       v.node.ast), "result": "ok" if bad is None else bad})

    # ---- R-COMM-POOL ------------------------------------------------------
    run.rule("R-COMM-POOL", "programmed value comes only from pool.pop(); "
             "pool built once, only shrunk; in-use addresses discovered and "
             "removed before Initialise")
    pool = "available_addresses"
    # (a) argument of Program/Verify is a Name defined only by pool.pop(..)
    for y in progs:
        a = y.arg(0)
        ok = False
        msg = "argument of ProgramShortAddress is not a plain local"
        if isinstance(a, ast.Name):
            defs = _defs_of(cfg, a.id)
            ok = bool(defs) and all(_is_pool_pop(d, pool) for d in defs)
            msg = ("%s has a definition other than %s.pop(...): %s"
                   % (a.id, pool, [unparse(d) for d in defs]))
            if not ok and defs and all(_is_pool_next(cfg, d, pool)
                                       for d in defs):
                # the pool handed out through one iterator over it:
                # next(it, SENTINEL), programmed only when it is not the
                # sentinel; the pool is not touched once the iterator exists
                sent = {unparse(d.args[1]) for d in defs}
                its = {d.args[0].id for d in defs}
                guard = len(sent) == 1 and W.must(
                    y.node, ("cond", "%s is %s" % (a.id, list(sent)[0]),
                             False))
                frozen = True
                for (nd, v) in _defs_of(cfg, list(its)[0], nodes=True):
                    seen_, stack_ = set(), [m_ for (l_, m_) in nd.succ]
                    while stack_:
                        x_ = stack_.pop()
                        if x_.id in seen_:
                            continue
                        seen_.add(x_.id)
                        if x_.ast is not None and x_.kind in (
                                "stmt", "test") and any(
                                    isinstance(c_, ast.Call) and isinstance(
                                        c_.func, ast.Attribute) and unparse(
                                            c_.func.value) == pool and
                                    c_.func.attr in ("pop", "remove",
                                                     "append", "insert",
                                                     "clear", "extend",
                                                     "sort", "reverse")
                                    for c_ in _walk_no_nested(x_.ast)):
                            frozen = False
                        stack_ += [m_ for (l_, m_) in x_.succ]
                ok = len(its) == 1 and guard and frozen
                msg = ("%s = next(%s, %s): sentinel guard %s, pool left "
                       "alone after iter(): %s" % (
                           a.id, sorted(its), sorted(sent), guard, frozen))
        run.ob("R-COMM-POOL", C + "#programmed-value", ok, msg,
               where(mod, y.node))
    # (b) pool: assigned only from list(...) of range(64)/the parameter,
    #     before any yield; mutated only by pop/remove
    first_yield_ids = {y.node.id for y in ys}
    pool_defs = _defs_of(cfg, pool, nodes=True)
    okb = bool(pool_defs)
    why = []
    for (node, val) in pool_defs:
        good = isinstance(val, ast.Call) and isinstance(val.func, ast.Name) \
            and val.func.id == "list" and len(val.args) == 1
        if good:
            inner = val.args[0]
            if isinstance(inner, ast.Name) and inner.id == pool:
                pass
            elif isinstance(inner, ast.Call) and isinstance(
                    inner.func, ast.Name) and inner.func.id == "range" and \
                    [unparse(x) for x in inner.args] in (["64"], ["0", "64"]):
                pass
            else:
                good = False
        if not good:
            okb = False
            why.append("pool assigned from %s" % unparse(val))
        if _yield_before_any(cfg, node, first_yield_ids):
            okb = False
            why.append("pool re-assigned after a yield (L%s)" % node.lineno)
    for n in cfg.reachable:
        if n.ast is None:
            continue
        for c in _walk_no_nested(n.ast):
            if isinstance(c, ast.Call) and isinstance(c.func, ast.Attribute) \
                    and isinstance(c.func.value, ast.Name) and \
                    c.func.value.id == pool and c.func.attr not in (
                        "pop", "remove", "copy", "index", "count"):
                okb = False
                why.append("pool.%s() at L%s" % (c.func.attr, n.lineno))
            if isinstance(c, ast.AugAssign) and isinstance(
                    c.target, ast.Name) and c.target.id == pool:
                okb = False
                why.append("augmented assignment to pool")
    run.ob("R-COMM-POOL", C + "#pool-discipline", okb, "; ".join(why),
           where(mod, fn))
    # (c) discovery loop on the non-readdress path
    okc, whyc = _check_discovery(cfg, world, qp, pool, ynode, inits, None)
    run.ob("R-COMM-POOL", C + "#in-use-discovery", okc, whyc, where(mod, fn))
    # (d) Program only while the pool is non-empty: pop dominated by truthy
    for n in cfg.reachable:
        if n.kind == "stmt" and isinstance(n.ast, ast.Assign) and \
                _is_pool_pop(n.ast.value, pool):
            # ... or the pop is tried and an empty pool caught (the
            # statement sits alone in a try whose handler takes IndexError)
            eafp = False
            for t_ in ast.walk(fn):
                if isinstance(t_, ast.Try) and any(
                        s_ is n.ast for s_ in t_.body) and len(
                            t_.body) == 1:
                    for h_ in t_.handlers:
                        nm_ = ["<bare>"] if h_.type is None else [
                            unparse(e_) for e_ in (
                                h_.type.elts if isinstance(
                                    h_.type, ast.Tuple) else [h_.type])]
                        if set(nm_) & {"IndexError", "LookupError",
                                       "Exception", "<bare>"} and not any(
                                isinstance(x_, (ast.Yield, ast.YieldFrom))
                                for x_ in ast.walk(h_)):
                            eafp = True
            run.ob("R-COMM-POOL", C + "#pop-guard",
                   W.must(n, ("cond", pool, True)) or eafp,
                   "pool.pop() is not guarded by a non-empty test",
                   where(mod, n))

    # (e) the caller's collection of permitted addresses is walked once: it
    # may be a one-shot iterable (a generator, filter(), map()), and whatever
    # walks it before the copy leaves the copy empty - every unit is then
    # withdrawn unaddressed although permitted addresses were free
    from ..cfg import reaching_defs, defs_reaching
    ap = "available_addresses"
    rdp = reaching_defs(cfg, [a.arg for a in fn.args.args])
    walks = []
    for n in cfg.reachable:
        if n.ast is None or n.kind not in ("stmt", "test", "for"):
            continue
        root = n.ast.iter if n.kind == "for" else n.ast
        for x in ast.walk(root):
            if not (isinstance(x, ast.Name) and x.id == ap and isinstance(
                    x.ctx, ast.Load)):
                continue
            if defs_reaching(rdp, n, ap) != {cfg.entry.id}:
                continue          # the sequence's own list by now
            par = [p_ for p_ in ast.walk(root) if any(
                ch is x for ch in ast.iter_child_nodes(p_))]
            par = par[0] if par else None
            if isinstance(par, ast.Compare) and len(par.ops) == 1 and \
                    isinstance(par.ops[0], (ast.Is, ast.IsNot)):
                continue          # `is None`: looks at nothing
            walks.append((n, unparse(par if par is not None else x, 60)))
    # two walks on one path?  (must not both be reachable one from the other)
    def reach(a, b):
        seen, stack = set(), [a]
        while stack:
            m_ = stack.pop()
            for (l_, k_) in m_.succ:
                if k_ is b:
                    return True
                if k_.id not in seen:
                    seen.add(k_.id)
                    stack.append(k_)
        return False
    twice = [(a[1], b[1]) for i_, a in enumerate(walks)
             for b in walks[i_ + 1:]
             if a[0] is b[0] or reach(a[0], b[0]) or reach(b[0], a[0])]
    run.ob("R-COMM-POOL", C + "#permitted-set-walked-once", not twice,
           "the caller's %s is walked more than once on a path (%s): a "
           "one-shot iterable is exhausted by the first walk and the copy "
           "the sequence works from is empty" % (ap, twice[:2]),
           where(mod, fn))
    run.floor("uses of the caller's permitted set", len(walks), 1)

    # ---- the commands reach the gear as the standard requires ------------
    # a configuration command acts only when it arrives twice within 100 ms:
    # RANDOMISE sent once leaves every unit on the same random address (the
    # clash loop never ends), SET SHORT ADDRESS sent once leaves the old
    # address in place.  The drivers read the class attribute.
    run.rule("R-COMM-TWICE", "commands the sequence yields are send-twice "
             "exactly where IEC 62386-102 says so (class-table lookup)")
    from .. import cmdtable
    from ..fold import Folder as _Folder
    _spec = cmdtable.load_spec()
    _rows = {}
    for _sec in ("102 standard dt=0", "102 special"):
        for _r in _spec.get(_sec, []):
            _rows[_r["name"]] = _r
    _fold = _Folder(world)
    _seen = set()
    _m2, _fn2, _ = world.func(MOD + "._find_next")
    _ys2 = yields_of(gen_cfg(_fn2, MOD + "._find_next"), world, MOD)
    for y in list(ys) + list(_ys2):
        k = y.cls
        if k is None or k.name in _seen or not k.qname.startswith(
                "dali.gear.general."):
            continue
        # spec rows are named after the standard; the library's class may
        # carry a Set... prefix (SetSearchAddrH = SearchaddrH)
        row = _rows.get(k.name)
        if row is None or row["twice"] is None:
            continue
        _seen.add(k.name)
        tw = _fold.class_attr(k, "sendtwice")
        run.ob("R-COMM-TWICE", k.qname, bool(tw) == row["twice"] and
               isinstance(tw, bool),
               "%s.sendtwice is %r, the standard says %s: the gear %s" % (
                   k.name, tw, row["twice"],
                   "ignores the single transmission" if row["twice"]
                   else "sees the command twice"),
               where(repo.mod(k.mod), k.node))
    run.floor("commissioning commands with a send-twice entry in the "
              "standard's table", len(_seen), 6)

    # ---- R-COMM-CLASH -----------------------------------------------------
    _check_find_next(run, repo, world, cfg, ys, ynode)
    _check_advance(run, mod, C, fn)

    # ---- R-COMM-EXIT ------------------------------------------------------
    run.rule("R-COMM-EXIT", "the search loops are left only on conditions "
             "about the search itself (nothing found, top of the range, a "
             "clash, the modes): no counter or budget abandons units that "
             "could still be addressed")
    ALLOWED = {"finished", "low", "high", "dry_run", "readdress",
               "available_addresses", "True", "False", "None"}
    parent_ = {}
    for x_ in ast.walk(fn):
        for ch_ in ast.iter_child_nodes(x_):
            parent_[id(ch_)] = x_
    # only the loops that send the search commands
    loops_ = [w_ for w_ in ast.walk(fn) if isinstance(w_, ast.While) and any(
        isinstance(c_, ast.Call) and unparse(c_.func) in (
            "Randomise", "_find_next") for c_ in ast.walk(w_))]
    tests_ = [(w_.test, w_) for w_ in loops_]
    for w_ in loops_:
        for b_ in ast.walk(w_):
            if not isinstance(b_, ast.Break):
                continue
            p_, child_ = parent_.get(id(b_)), b_
            while p_ is not None and p_ is not w_:
                if isinstance(p_, ast.If):
                    tests_.append((p_.test, p_))
                if isinstance(p_, (ast.While, ast.For)):
                    break          # the break leaves an inner loop
                child_, p_ = p_, parent_.get(id(p_))
    strange = []
    for (t_, at_) in tests_:
        names_ = {n_.id for n_ in ast.walk(t_) if isinstance(n_, ast.Name)}
        if not names_ <= ALLOWED:
            strange.append((unparse(t_), sorted(names_ - ALLOWED), at_))
    run.ob("R-COMM-EXIT", C + "#search-loops", not strange and bool(loops_),
           "the search can be left when `%s` (%s is not part of the search "
           "state): units that have not been found yet stay unaddressed "
           "although addresses remain" % (
               strange[0][0] if strange else "", strange[0][1]
               if strange else ""), where(mod, strange[0][2]) if strange
           else where(mod, fn))

    # ---- R-COMM-RERAND ----------------------------------------------------
    run.rule("R-COMM-RERAND", "no path from Withdraw (after a real "
             "ProgramShortAddress) to Randomise without Terminate + "
             "non-broadcast Initialise")
    rands = [y for y in ys if _is(y, "Randomise")]
    run.floor("Randomise yields", len(rands), 1)
    for y in rands:
        bad = W.worlds_with(y.node, lambda w: "prog_withdrawn" in w
                            or "pw_term" in w)
        msg = ""
        if bad:
            msg = ("Randomise is reachable while units that were programmed "
                   "and withdrawn are still in initialisation state; they "
                   "draw new random addresses and accept a later "
                   "ProgramShortAddress: %s"
                   % path_str(_tail_from(W.trace(y.node, bad[0]), ynode,
                                         "Withdraw"), 14))
        run.ob("R-COMM-RERAND", C + "#Randomise", not bad, msg,
               where(mod, y.node),
               sample={"rule": "R-COMM-RERAND", "worlds_at_Randomise": [
                   sorted(f for f in w if isinstance(f, str))
                   for w in W.at(y.node)][:6]})


def _tail_from(path, ynode, name):
    last = 0
    for i, n in enumerate(path):
        if n.id in ynode and _is(ynode[n.id], name):
            last = i
    return path[last:]


def _discovery_loops(cfg, qp):
    out = set()
    for y in qp:
        a0 = y.arg(0)
        var = None
        if isinstance(a0, ast.Call) and len(a0.args) == 1 and isinstance(
                a0.args[0], ast.Name):
            var = a0.args[0].id
        elif isinstance(a0, ast.Name):
            var = a0.id
        for n in cfg.reachable:
            if n.kind == "for" and isinstance(n.ast.target, ast.Name) and \
                    n.ast.target.id == var:
                out.add(n.id)
    return out


# ---------------------------------------------------------------------------
def _forward_mixed(cfg, transfer, edge_transfer):
    """May-analysis for plain string facts, must-analysis for ('cond',..)
    tuples."""
    IN = {cfg.entry.id: frozenset()}
    work = [cfg.entry]
    it = 0
    origin = {}
    IN["origin"] = origin
    while work:
        it += 1
        if it > 200000:
            raise AnalysisError("mixed dataflow did not converge")
        n = work.pop()
        out = transfer(n, IN[n.id])
        for (label, m) in n.succ:
            o = edge_transfer(n, label, m, out)
            if o is None:
                continue
            for f in o:
                if isinstance(f, str) and (m.id, f) not in origin:
                    origin[(m.id, f)] = n
            if m.id not in IN:
                IN[m.id] = o
                work.append(m)
            else:
                old = IN[m.id]
                may = {f for f in old | o if isinstance(f, str)}
                must = {f for f in old & o if not isinstance(f, str)}
                new = frozenset(may | must)
                if new != old:
                    IN[m.id] = new
                    work.append(m)
    return IN


def _next_yields(cfg, node, ynode):
    """The set of next yield points after node on all paths (None = an exit
    is reached first)."""
    out = []
    seen = set()
    stack = [m for (l, m) in node.succ if l != "exc"]
    while stack:
        n = stack.pop()
        if n.id in seen:
            continue
        seen.add(n.id)
        if n.id in ynode:
            out.append(ynode[n.id])
            continue
        if n.kind in ("exit",):
            out.append(None)
            continue
        for (l, m) in n.succ:
            if l != "exc" or n.kind == "stmt" and isinstance(n.ast, ast.Raise):
                stack.append(m)
    return out


def _prev_commands(cfg, node, ynode):
    """Previous bus commands on all paths (progress / sleep items skipped);
    None = the function entry."""
    out = []
    seen = set()
    stack = [p for (l, p) in node.pred]
    while stack:
        n = stack.pop()
        if n.id in seen:
            continue
        seen.add(n.id)
        y = ynode.get(n.id)
        if y is not None and not (y.cls is not None and y.cls.qname in (
                MOD + ".progress", MOD + ".sleep")):
            out.append(y)
            continue
        if n.kind == "entry":
            out.append(None)
            continue
        for (l, p) in n.pred:
            stack.append(p)
    return out


def _prev_yields(cfg, node, ynode):
    out = []
    seen = set()
    stack = [p for (l, p) in node.pred]
    while stack:
        n = stack.pop()
        if n.id in seen:
            continue
        seen.add(n.id)
        if n.id in ynode:
            out.append(ynode[n.id])
            continue
        if n.kind == "entry":
            out.append(None)
            continue
        for (l, p) in n.pred:
            stack.append(p)
    return out


def _yield_before(cfg, node, ynode, name):
    """Is some yield of command `name` an ancestor of node?"""
    seen = set()
    stack = [p for (l, p) in node.pred]
    while stack:
        n = stack.pop()
        if n.id in seen:
            continue
        seen.add(n.id)
        if n.id in ynode and _is(ynode[n.id], name):
            return True
        for (l, p) in n.pred:
            stack.append(p)
    return False


def _yield_before_any(cfg, node, yield_ids):
    seen = set()
    stack = [p for (l, p) in node.pred]
    while stack:
        n = stack.pop()
        if n.id in seen:
            continue
        seen.add(n.id)
        if n.id in yield_ids:
            return True
        for (l, p) in n.pred:
            stack.append(p)
    return False


def _defs_of(cfg, name, nodes=False):
    out = []
    for n in cfg.reachable:
        if n.kind == "stmt" and isinstance(n.ast, ast.Assign):
            for t in n.ast.targets:
                if isinstance(t, ast.Name) and t.id == name:
                    out.append((n, n.ast.value) if nodes else n.ast.value)
        elif n.kind == "stmt" and isinstance(n.ast, (ast.AugAssign,
                                                      ast.AnnAssign)):
            t = n.ast.target
            if isinstance(t, ast.Name) and t.id == name:
                out.append((n, n.ast) if nodes else n.ast)
        elif n.kind == "for" and name in assigned_names(n.ast.target):
            out.append((n, n.ast.iter) if nodes else n.ast.iter)
    return out


def _is_pool_next(cfg, e, pool):
    """next(IT, SENTINEL) with IT bound once, to iter(pool)."""
    if not (isinstance(e, ast.Call) and unparse(e.func) == "next" and len(
            e.args) == 2 and isinstance(e.args[0], ast.Name)):
        return False
    ds = _defs_of(cfg, e.args[0].id)
    return len(ds) == 1 and isinstance(ds[0], ast.Call) and unparse(
        ds[0].func) == "iter" and len(ds[0].args) == 1 and unparse(
            ds[0].args[0]) == pool


def _is_pool_pop(e, pool):
    return isinstance(e, ast.Call) and isinstance(e.func, ast.Attribute) \
        and e.func.attr == "pop" and isinstance(e.func.value, ast.Name) \
        and e.func.value.id == pool


def _path_with(cfg, src, dst, require, avoid_ids):
    """Find a path src->dst that avoids avoid_ids and is consistent with the
    required truth values of plain-name tests (name, bool)."""
    req = dict(require)
    from collections import deque
    prev = {src.id: None}
    q = deque([src])
    while q:
        n = q.popleft()
        for (l, m) in n.succ:
            if l == "exc":
                continue
            if n.kind == "test" and isinstance(n.ast, ast.Name) and \
                    n.ast.id in req and l in ("T", "F"):
                if (l == "T") != req[n.ast.id]:
                    continue
            if m.id in prev or m.id in avoid_ids:
                continue
            prev[m.id] = n
            if m is dst:
                path = [m]
                while prev[path[-1].id] is not None:
                    path.append(prev[path[-1].id])
                return list(reversed(path))
            q.append(m)
    return None


def _unverified_escape(cfg, vnode, r, ynode, world):
    """After `r = yield Verify...`, explore paths until `r.value is True` is
    established; report the first yield/exit reached before that, or a raise
    of the wrong class."""
    seen = set()
    stack = [(m, l) for (l, m) in vnode.succ if l != "exc"]
    while stack:
        n, via = stack.pop()
        if n.id in seen:
            continue
        seen.add(n.id)
        if n.id in ynode:
            return "reaches %r unverified" % ynode[n.id]
        if n.kind == "exit":
            return "reaches normal exit unverified"
        if n.kind == "stmt" and isinstance(n.ast, ast.Raise):
            exc = n.ast.exc
            f = exc.func if isinstance(exc, ast.Call) else exc
            c = world.resolve_class(MOD, f) if f is not None else None
            if c is None or c.qname != \
                    "dali.exceptions.ProgramShortAddressFailure":
                return "raises %s instead of ProgramShortAddressFailure" % (
                    unparse(exc) if exc is not None else "<re-raise>")
            continue
        if n.kind == "stmt" and r in assigned_names(n.ast):
            return "%s is overwritten before being tested (L%s)" % (
                r, n.lineno)
        for (l, m) in n.succ:
            if l == "exc":
                continue
            if n.kind == "test":
                est = _establishes_true(n.ast, r)
                if est is not None and (l == "T") == est:
                    continue   # verified on this edge: stop exploring
            stack.append((m, l))
    return None


def _establishes_true(e, r):
    """Which branch of test e establishes r.value is True?  True/False/None"""
    if _is_attr_chain(e, [r, "value"]):
        return True
    if isinstance(e, ast.Compare) and len(e.ops) == 1 and _is_attr_chain(
            e.left, [r, "value"]) and isinstance(
                e.comparators[0], ast.Constant):
        c = e.comparators[0].value
        op = e.ops[0]
        if c is True:
            if isinstance(op, (ast.Is, ast.Eq)):
                return True
            if isinstance(op, (ast.IsNot, ast.NotEq)):
                return False
        if c is False:
            if isinstance(op, (ast.Is, ast.Eq)):
                return False
            if isinstance(op, (ast.IsNot, ast.NotEq)):
                return True
    return None


def _check_discovery(cfg, world, qp, pool, ynode, inits, INc):
    if not qp:
        return False, "no QueryControlGearPresent in Commissioning"
    why = []
    for y in qp:
        # argument Short(a), a the loop variable of `for a in range(0, 64)`
        a0 = y.arg(0)
        var = None
        if isinstance(a0, ast.Call) and len(a0.args) == 1 and isinstance(
                a0.args[0], ast.Name):
            c = world.resolve_class(MOD, a0.func)
            if c is not None and c.qname == "dali.address.GearShort":
                var = a0.args[0].id
        elif isinstance(a0, ast.Name):
            var = a0.id     # ints are wrapped as gear short addresses
        if var is None:
            why.append("QueryControlGearPresent argument is not Short(a)")
            continue
        loop = None
        for n in cfg.reachable:
            if n.kind == "for" and isinstance(n.ast.target, ast.Name) and \
                    n.ast.target.id == var:
                loop = n
        if loop is None:
            why.append("no for-loop over %s" % var)
            continue
        it = loop.ast.iter
        full = isinstance(it, ast.Call) and isinstance(it.func, ast.Name) \
            and it.func.id == "range" and [unparse(x) for x in it.args] in (
                ["64"], ["0", "64"])
        alt = isinstance(it, ast.Call) and isinstance(it.func, ast.Name) \
            and it.func.id in ("list", "sorted", "tuple") and \
            len(it.args) == 1 and unparse(it.args[0]) == pool
        it2 = it
        if isinstance(it, ast.Name):
            ds = _defs_of(cfg, it.id)
            if len(ds) == 1:
                it2 = ds[0]
        alt2 = False
        if isinstance(it2, ast.ListComp) and len(it2.generators) == 1:
            g = it2.generators[0]
            src = g.iter
            src_ok = (isinstance(src, ast.Call) and unparse(src.func) ==
                      "range" and [unparse(x) for x in src.args] in (
                          ["64"], ["0", "64"])) or unparse(src) == pool
            ifs_ok = all(unparse(c_) == "%s in %s" % (unparse(g.target),
                                                       pool) for c_ in g.ifs)
            alt2 = src_ok and ifs_ok and unparse(it2.elt) == unparse(g.target)
        if not (full or alt or alt2) and isinstance(it, ast.Name) and any(
                isinstance(x, ast.Call) and isinstance(
                    x.func, ast.Attribute) and x.func.attr == "append" and
                unparse(x.func.value) == it.id for x in ast.walk(cfg.fn)):
            # loop fission: the answering addresses are collected in a list
            # by the scan and struck off the pool in a second loop - which
            # candidates are asked is then a fact about the first loop that
            # this rule (one loop that asks and removes) does not connect
            raise AnalysisError(
                "Commissioning collects the addresses in use in `%s` and "
                "removes them from the pool in a second loop; the in-use "
                "rule reads one loop that asks and removes" % it.id)
        if not (full or alt or alt2):
            why.append("discovery loop iterates %s, not every candidate"
                       % unparse(it))
        # inside the loop the query is skipped only for candidates that are
        # not in the pool: every test between the loop head and the query
        # is `var in pool`
        seen_, stack_ = set(), [(m_, ()) for (l_, m_) in loop.succ
                                if l_ == "loop"]
        while stack_:
            n_, conds_ = stack_.pop()
            if n_ is y.node:
                extra = [t_ for t_ in conds_ if t_ not in (
                    "%s in %s" % (var, pool),)]
                if extra:
                    why.append("the in-use query for a candidate is skipped "
                               "unless `%s`: an address the caller listed "
                               "but a unit already owns is handed out again"
                               % " and ".join(extra))
                continue
            if (n_.id, conds_) in seen_ or n_ is loop:
                continue
            seen_.add((n_.id, conds_))
            for (l_, m_) in n_.succ:
                if l_ == "exc":
                    continue
                c2 = conds_
                if n_.kind == "test" and l_ in ("T", "F"):
                    txt = unparse(n_.ast) if l_ == "T" else \
                        "not " + unparse(n_.ast)
                    c2 = conds_ + (txt,)
                stack_.append((m_, c2))
        if y.target is None:
            why.append("QueryControlGearPresent answer is discarded")
            continue
        # every path from the T edge of <target>.value to the loop head
        # passes pool.remove(var)
        X = y.target
        tests = [n for n in cfg.reachable if n.kind == "test" and
                 _is_attr_chain(n.ast, [X, "value"])]
        if not tests:
            why.append("%s.value is never tested" % X)
        for t in tests:
            for (l, m) in t.succ:
                if l != "T":
                    continue
                seen = set()
                stack = [m]
                while stack:
                    n = stack.pop()
                    if n.id in seen:
                        continue
                    seen.add(n.id)
                    if n.kind == "stmt" and any(
                            isinstance(c, ast.Call) and isinstance(
                                c.func, ast.Attribute) and c.func.attr ==
                            "remove" and unparse(c.func.value) == pool and
                            len(c.args) == 1 and unparse(c.args[0]) == var
                            for c in _walk_no_nested(n.ast)):
                        continue
                    if n is loop or n.kind in ("exit",) or n.id in ynode:
                        why.append("an address answering 'present' is not "
                                   "removed from the pool")
                        stack = []
                        break
                    stack += [mm for (ll, mm) in n.succ if ll != "exc"]
        # every path entry -> Initialise with readdress false passes the
        # loop's 'done' edge
        for iy in inits:
            p = _path_with(cfg, cfg.entry, iy.node,
                           require={("readdress", False)},
                           avoid_ids={loop.id})
            if p is not None and not _yield_before(cfg, iy.node, ynode,
                                                   "Randomise"):
                why.append("Initialise reachable without in-use discovery "
                           "when not re-addressing")
    return (not why), "; ".join(why)


def _check_find_next(run, repo, world, ccfg, cys, cynode):
    mod = repo.mod(MOD)
    run.rule("R-COMM-CLASH", "_find_next: search address loaded H,M,L "
             "before Compare; leaf returns the clash marker iff the Compare "
             "answer has a framing error; caller restarts on the marker")
    m, fn, _ = world.func(MOD + "._find_next")
    from ..normal import loop_to_tailcall
    tc = loop_to_tailcall(fn)
    if tc is not None:
        run.note("_find_next: `while True` loop read as the tail recursion "
                 "it abbreviates")
        fn = tc
    fn = normalise(fn, world, MOD, primitives=("_find_next",), aliases=True)
    cfg = gen_cfg(fn, MOD + "._find_next")
    ys = yields_of(cfg, world, MOD)
    F = MOD + "._find_next"
    names = [y.name for y in ys if not y.is_from]
    # order of the first four yields on the single straight-line prefix
    seq = []
    n = cfg.entry
    while True:
        nxt = [mm for (l, mm) in n.succ if l != "exc"]
        if len(nxt) != 1:
            break
        n = nxt[0]
        for y in ys:
            if y.node is n:
                seq.append(y)
        if n.kind == "test":
            break
    want = ["SearchaddrH", "SearchaddrM", "SearchaddrL", "Compare"]
    got = [y.cls.name if y.cls else y.name for y in seq[:4]]
    if not seq and any(isinstance(w_, (ast.While, ast.For)) for w_ in
                       ast.walk(fn)):
        # the search written as a loop over a work list of ranges (or any
        # loop that is not the tail-recursive form): which ranges are
        # examined, in which order, is then a property of the data
        # structure's history, not of the control flow this rule reads
        raise AnalysisError(
            "_find_next: the binary search is written as a loop the rule "
            "cannot read as the recursion over halves (no straight-line "
            "search-address prefix)")
    hi = fn.args.args[1].arg if len(fn.args.args) > 1 else "high"
    shifts_ok = len(seq) >= 3 and [
        _byte_lane(seq[i].arg(0), hi, fn) for i in range(3)] == [2, 1, 0]
    run.ob("R-COMM-CLASH", F + "#search-address-order",
           got == want and shifts_ok,
           "expected H,M,L of `%s` then Compare, got %s lanes %s" % (
               hi, got, [(_byte_lane(y.arg(0), hi, fn)) for y in seq[:3]]),
           where(mod, fn))
    cmp_y = seq[3] if len(seq) > 3 else None
    if cmp_y is None or cmp_y.target is None:
        run.ob("R-COMM-CLASH", F + "#compare-bound", False,
               "Compare answer is not bound to a variable", where(mod, fn))
        return
    r = cmp_y.target
    # enumerate return nodes with their path conditions
    rets = _enumerate_returns(cfg, cmp_y.node, r)
    leaf = [x for x in rets if x["conds"].get("low == high") is True]
    run.floor("_find_next leaf returns", len(leaf), 2)
    marker = None
    for x in leaf:
        c = x["conds"]
        val = x["value"]
        key = F + "#leaf"
        if c.get("value_true") is True:
            if c.get("error") is True:
                ok = isinstance(val, ast.Constant) and isinstance(
                    val.value, str)
                if ok:
                    marker = val.value
                run.ob("R-COMM-CLASH", key + "[yes,error]", ok,
                       "leaf with framing error must return the clash "
                       "marker, returns %s" % (unparse(val) if val else None),
                       where(mod, x["node"]))
            elif c.get("error") is False:
                ok = isinstance(val, ast.Name) and val.id == \
                    fn.args.args[0].arg
                run.ob("R-COMM-CLASH", key + "[yes,clean]", ok,
                       "leaf with a clean YES must return the address, "
                       "returns %s" % (unparse(val) if val else None),
                       where(mod, x["node"]))
            else:
                run.ob("R-COMM-CLASH", key + "[yes,untested]", False,
                       "leaf returns %s without testing %s.raw_value.error"
                       % (unparse(val) if val else None, r),
                       where(mod, x["node"]))
        elif c.get("value_true") is False:
            ok = val is None or (isinstance(val, ast.Constant)
                                 and val.value is None)
            run.ob("R-COMM-CLASH", key + "[no]", ok,
                   "leaf without YES must return None", where(mod, x["node"]))
        else:
            run.ob("R-COMM-CLASH", key + "[untested]", False,
                   "leaf returns without testing %s.value" % r,
                   where(mod, x["node"]))
    # caller compares with the same marker and restarts
    tests = [n for n in ccfg.reachable if n.kind == "test" and isinstance(
        n.ast, ast.Compare) and len(n.ast.ops) == 1 and isinstance(
            n.ast.comparators[0], ast.Constant) and isinstance(
                n.ast.comparators[0].value, str)]
    okc = False
    for t in tests:
        if t.ast.comparators[0].value == marker and isinstance(
                t.ast.ops[0], ast.Eq):
            # T edge must reach Randomise before any Program/Withdraw
            for (l, mnode) in t.succ:
                if l == "T":
                    nxt = _next_cmds(ccfg, mnode, cynode)
                    okc = bool(nxt) and all(
                        y is not None and (_is(y, "Randomise") or _is(
                            y, "Terminate")) for y in nxt)
    run.ob("R-COMM-CLASH", MOD + ".Commissioning#restart-on-clash", okc,
           "caller does not restart (Randomise/Terminate next) when "
           "_find_next returns the clash marker %r" % marker,
           where(mod, ccfg.fn))
    # recursion covers both halves: [low, mid] and [mid+1, high]
    rec = [y for y in ys if y.is_from and y.fn and y.fn[1].name ==
           "_find_next"]
    run.ob("R-COMM-CLASH", F + "#bisect", len(rec) == 2 and _bisect_ok(rec, fn),
           "the two recursive calls must cover [low, mid] and [mid+1, high]",
           where(mod, fn))


def _byte_lane(e, var, fn=None):
    """(var >> 8k) & 0xff  /  var & 0xff  -> k; also element i of
    `(var [& 0xffffff]).to_bytes(3, 'big' | 'little')`, through a local
    bound by unpacking it."""
    if fn is not None and isinstance(e, ast.Name):
        from .. import astq
        d = astq._defs(fn).get(e.id)
        if d is not None:
            return _byte_lane(d, var, None)
    if isinstance(e, ast.Subscript) and isinstance(
            e.slice, ast.Constant) and type(e.slice.value) is int and \
            isinstance(e.value, ast.Call) and isinstance(
                e.value.func, ast.Attribute) and \
            e.value.func.attr == "to_bytes":
        c = e.value
        kw = {k.arg: k.value for k in c.keywords}
        n_ = c.args[0] if c.args else kw.get("length")
        o_ = c.args[1] if len(c.args) > 1 else kw.get("byteorder")
        src = c.func.value
        if isinstance(src, ast.BinOp) and isinstance(
                src.op, ast.BitAnd) and isinstance(
                    src.right, ast.Constant) and src.right.value == 0xffffff:
            src = src.left
        if isinstance(src, ast.Name) and src.id == var and isinstance(
                n_, ast.Constant) and n_.value == 3 and isinstance(
                    o_, ast.Constant) and o_.value in ("big", "little") \
                and 0 <= e.slice.value < 3:
            return (2 - e.slice.value) if o_.value == "big" \
                else e.slice.value
        return None
    if isinstance(e, ast.BinOp) and isinstance(e.op, ast.BitAnd) and \
            isinstance(e.right, ast.Constant) and e.right.value == 0xff:
        l = e.left
        if isinstance(l, ast.Name) and l.id == var:
            return 0
        if isinstance(l, ast.BinOp) and isinstance(l.op, ast.RShift) and \
                isinstance(l.left, ast.Name) and l.left.id == var and \
                isinstance(l.right, ast.Constant) and \
                l.right.value in (8, 16):
            return l.right.value // 8
    return None


def _bisect_ok(rec, fn=None):
    """The two recursive calls cover [low, M] and [M + 1, high] with
    M = (low + high) // 2 (a local holding it, or the expression itself)."""
    from .. import astq
    from ..lanes import Lin

    def canon(e):
        return unparse(astq.resolve(fn, e)) if fn is not None else unparse(e)
    a = [canon(x) for x in rec[0].call.args]
    b = [canon(x) for x in rec[1].call.args]
    mids = {"(low + high) // 2", "(high + low) // 2", "low + high >> 1",
            "(low + high) >> 1", "low + (high - low) // 2"}
    if len(a) != 2 or len(b) != 2 or a[0] != "low" or b[1] != "high":
        return False
    m = a[1]
    if m not in mids and not m.isidentifier():
        return False
    return b[0] in ("%s + 1" % m, "(%s) + 1" % m, "1 + %s" % m,
                    "1 + (%s)" % m)


def _next_cmds(cfg, start, ynode):
    """Next command yields (skipping progress/sleep yields)."""
    out, seen, stack = [], set(), [start]
    while stack:
        n = stack.pop()
        if n.id in seen:
            continue
        seen.add(n.id)
        y = ynode.get(n.id)
        if y is not None and y.cls is not None and \
                y.cls.qname.startswith(GEAR):
            out.append(y)
            continue
        if n.kind == "exit":
            out.append(None)
            continue
        stack += [m for (l, m) in n.succ if l != "exc"]
    return out


def _enumerate_returns(cfg, start, r):
    """All (return node, path conditions) pairs reachable from start, tracking
    the tests low == high, r.value (is True), r.raw_value.error.  IfExp in a
    return value is split."""
    out = []

    def classify(e):
        if isinstance(e, ast.Compare) and unparse(e) == "low == high":
            return ("low == high", True)
        if isinstance(e, ast.Compare) and unparse(e) == "low != high":
            return ("low == high", False)
        est = _establishes_true(e, r)
        if est is not None:
            return ("value_true", est)
        if _is_attr_chain(e, [r, "raw_value", "error"]):
            return ("error", True)
        return None

    def walk(n, conds, seen):
        key = (n.id, tuple(sorted(conds.items())))
        if key in seen:
            return
        seen.add(key)
        if n.kind == "stmt" and isinstance(n.ast, ast.Return):
            v = n.ast.value
            if isinstance(v, ast.IfExp):
                cl = classify(v.test)
                if cl is not None:
                    for val, pol in ((v.body, True), (v.orelse, False)):
                        c2 = dict(conds)
                        c2[cl[0]] = (pol == cl[1])
                        out.append({"node": n, "conds": c2, "value": val})
                    return
            out.append({"node": n, "conds": dict(conds), "value": v})
            return
        if n.kind == "exit":
            out.append({"node": n, "conds": dict(conds), "value": None})
            return
        for (l, m) in n.succ:
            if l == "exc":
                continue
            c2 = conds
            if n.kind == "test" and l in ("T", "F"):
                cl = classify(n.ast)
                if cl is not None:
                    val = (l == "T") == cl[1]
                    if cl[0] in conds and conds[cl[0]] != val:
                        continue
                    c2 = dict(conds)
                    c2[cl[0]] = val
            walk(m, c2, seen)
    for (l, m) in start.succ:
        if l != "exc":
            walk(m, {}, set())
    return out


def _check_advance(run, mod, C, fn):
    """After a unit has been found at random address `low` and withdrawn,
    the search continues at low + 1 while low < high and stops only when
    low == high (nothing can be above the top of the range): decided on the
    path summaries of the statements that follow `yield Withdraw()`."""
    from .. import pred, paths
    run.rule("R-COMM-ADVANCE", "after Withdraw the search resumes at found+1 "
             "exactly while found < high; it ends only at the top of the "
             "address space")
    tail = None
    for n in ast.walk(fn):
        body = getattr(n, "body", None)
        if not isinstance(body, list):
            continue
        for fld in ("body", "orelse"):
            blk = getattr(n, fld, None)
            if not isinstance(blk, list):
                continue
            for i, s_ in enumerate(blk):
                if isinstance(s_, ast.Expr) and isinstance(
                        s_.value, ast.Yield) and isinstance(
                            s_.value.value, ast.Call) and unparse(
                                s_.value.value.func) == "Withdraw":
                    tail = blk[i + 1:]
    if tail is None:
        raise AnalysisError("Commissioning: `yield Withdraw()` not found as "
                            "a statement")
    f2 = ast.FunctionDef(name="advance", args=fn.args, body=list(tail) or [
        ast.Pass()], decorator_list=[], returns=None, type_comment=None,
        type_params=[])
    ast.fix_missing_locations(f2)
    try:
        ps = paths.summaries(f2)
    except paths.Unsupported as e:
        raise AnalysisError("Commissioning: the statements after Withdraw "
                            "are not loop-free (%s)" % e)
    P = pred.Parser(pred.lin_of({"low": "low", "high": "high"}))
    lin = pred.lin_of({"low": "low", "high": "high"})
    from ..lanes import Lin
    cont, stop, other = [], [], []
    for p_ in ps:
        trees = []
        for (t, b) in p_.conds:
            tr = P.tree(t)
            trees.append(tr if b else ("not", tr))
        d = pred.dnf(("and", trees))
        new = p_.env.get("low")
        if new is None:
            other.append((p_, "low unchanged"))
        elif isinstance(new, ast.Constant) and new.value is None:
            fin = p_.env.get("finished")
            fin_true = isinstance(fin, ast.Constant) and fin.value is True
            if not fin_true and fin is not None:
                # a computed flag: true on this path if the path's
                # conditions imply it
                try:
                    fin_true = pred.implies(d, P.dnf(fin), [
                        ("le", "low", "high", 0)])[0]
                except pred.Unrecognised:
                    fin_true = False
            # whether the sequence really ends here (and does not draw
            # new random addresses with the withdrawn units still
            # initialised) is R-COMM-RERAND's question, decided on the CFG
            # whatever flag or loop exit is used
            del fin_true
            stop.append(d)
        elif lin(new) == Lin.sym("low") + 1:
            cont.append(d)
        else:
            other.append((p_, "low becomes %s" % unparse(new)))
    hyp = [("le", "low", "high", 0)]

    def f(src):
        return P.dnf(ast.parse(src, mode="eval").body)
    c_ok, cw = pred.equivalent(pred.union(*cont) if cont else frozenset(),
                               f("low < high"), hyp)
    s_ok, sw = pred.equivalent(pred.union(*stop) if stop else frozenset(),
                               f("low >= high"), hyp)
    run.ob("R-COMM-ADVANCE", C + "#resume-at-found+1", c_ok and s_ok and
           not other,
           "the search continues at low+1 when `%s` (required: low < high) "
           "and stops when `%s` (required: low == high)%s: a unit whose "
           "random address lies above the point where the search stops is "
           "never found" % (
               pred.show(pred.union(*cont)) if cont else "never",
               pred.show(pred.union(*stop)) if stop else "never",
               "; " + "; ".join(w for (_, w) in other) if other else ""),
           where(mod, fn),
           sample={"rule": "R-COMM-ADVANCE", "paths": [repr(p_) for p_ in ps]})
