"""C09 - memory-bank reads: R-MEMR-RO, R-MEMR-ORDER, R-MEMR-LATCH, R-WEN,
R-RDISC, R-MEMR-SNAP, R-MEM-SIB (DESIGN.md section 3, C09)."""
import ast

from ..core import AnalysisError, unparse, where
from ..cfg import forward_worlds, path_str, _walk_no_nested
from ..seq import (check_rdisc, cond_edge_transfer, kill_conds_on_assign,
                   _is_attr_chain, assigned_names)
from ..dtr0sym import Dtr0Sym
from ..memseq import (LOC, WEN_KEEP, selectors, label, const_arg,
                      method_cfg)

MV = LOC + ".MemoryValue"
MB = LOC + ".MemoryBank"


def check(run, repo, world):
    run.explanation = (
        "Decides on the generator CFGs of MemoryValue.read_raw/read/"
        "from_list and MemoryBank.read_all/last_address/is_locked: only "
        "DTR0/DTR1/ReadMemoryLocation are issued (plus, inside the latch "
        "bracket, EnableWriteMemory and WriteMemoryLocationNoReply of "
        "0xAA/0xFF at location 2); DTR1(bank) and a DTR0 load dominate every "
        "read and the local DTR0 tracker follows the auto-increment; the "
        "latch write is paired with an un-latch write on every normal and "
        "raising exit; every write is issued in write-enabled state "
        "(IEC 62386-102 9.10: any command outside the DTR/write/query-DTR "
        "set clears it); None -> not implemented, framing error -> "
        "ResponseError; whole-bank and single-value reads share one "
        "interpretation expression; list index == location address.  NOT "
        "decided: agreement of the DTR0 tracker with the unit for arbitrary "
        "declared layouts (arithmetic over location sequences).")
    run.assumptions += [
        "a conforming unit clears writeEnableState on every command outside "
        "%s" % sorted(WEN_KEEP),
        "generator-close (driver abort) edges are out of scope: the "
        "property injects answers, not aborts"]
    mod = repo.mod(LOC)
    # no memory between runs (a cached last accessible location would also
    # skip the read that loads DTR1 with the bank number)
    from ..seq import check_stateless
    from ..front import ClassInfo as _CI
    _named = []
    for _qn in (LOC + ".MemoryBank", LOC + ".MemoryValue"):
        _k = world.cls(_qn)
        for _sub in [_k] + [x for x in world.class_order
                            if _k in x.mro and x is not _k]:
            for _nm, (_kind, _f) in _sub.methods.items():
                _named.append(("%s.%s" % (_sub.qname, _nm), _f))
    check_stateless(run, "R-MEM-STATELESS", mod, _named, 6)
    sel = selectors(run, repo, world)

    # ---- read_raw -----------------------------------------------------------
    fn, cfg, ys, Q = method_cfg(world, MV, "read_raw")
    names = [label(y, sel) for y in ys]
    run.rule("R-MEMR-RO", "read paths issue only DTR0 / DTR1 / "
             "ReadMemoryLocation (latch bracket aside)")
    run.ob("R-MEMR-RO", Q + "#commands",
           set(names) == {"DTR0", "DTR1", "ReadMemoryLocation"},
           "read_raw yields %s" % sorted(set(names)), where(mod, fn),
           sample={"rule": "R-MEMR-RO", "function": Q,
                   "commands": sorted(set(names))})
    nuse = check_rdisc(run, world, LOC, Q, cfg, ys, mod)
    _check_read_raw_order(run, mod, Q, fn, cfg, ys, sel)

    # ---- read / from_list -----------------------------------------------------
    rfn, rcfg, rys, RQ = method_cfg(world, MV, "read")
    run.ob("R-MEMR-RO", RQ + "#delegates",
           [label(y, sel) for y in rys] == ["from:cls.read_raw"],
           "read must obtain its bytes from read_raw only: %s"
           % [label(y, sel) for y in rys], where(mod, rfn))
    _check_snap(run, world, mod, rfn)

    # ---- read_all ---------------------------------------------------------------
    afn, acfg, ays, AQ = method_cfg(world, MB, "read_all",
                                    inline_also=("last_address",),
                                    lift_values=True)
    nuse += check_rdisc(run, world, LOC, AQ, acfg, ays, mod)
    run.floor("R-RDISC response-use sites (memory reads)", nuse, 4)
    _check_read_all(run, world, mod, AQ, afn, acfg, ays, sel)

    # ---- last_address / is_locked ---------------------------------------------
    for m, want in (("last_address", "from:self.LastAddress.read"),
                    ("is_locked", "from:self.LockByte.read")):
        f2, c2, y2, q2 = method_cfg(world, MB, m)
        run.ob("R-MEMR-RO", q2 + "#delegates",
               [label(y, sel) for y in y2] == [want],
               "%s must only read through %s, yields %s" % (
                   m, want, [label(y, sel) for y in y2]), where(mod, f2))


# ---------------------------------------------------------------------------
def _check_read_raw_order(run, mod, Q, fn, cfg, ys, sel):
    run.rule("R-MEMR-ORDER", "DTR1(bank) dominates every read; DTR0 is "
             "loaded when the tracker differs; tracker follows the "
             "auto-increment after every read")
    ynode = {y.node.id: y for y in ys}
    cet = cond_edge_transfer()

    def transfer(node, st):
        st = kill_conds_on_assign(node, st)
        y = ynode.get(node.id)
        if y is not None:
            nm = label(y, sel)
            if nm == "DTR1":
                ok = y.arg(1) is not None and unparse(y.arg(1)) in (
                    "cls.bank.address", "self.address", "self.bank.address")
                st = st | ({"dtr1"} if ok else {"dtr1-wrong"})
            if nm == "DTR0":
                st = (st | {"dtr0"}) - {"stale"}
            if nm == "ReadMemoryLocation":
                st = st | {"stale"}     # tracker must be advanced
        if node.kind == "stmt" and isinstance(node.ast, ast.Assign) and any(
                isinstance(t, ast.Name) and t.id == "dtr0"
                for t in node.ast.targets):
            v = unparse(node.ast.value)
            if v in ("min(dtr0 + 1, 255)", "min(255, dtr0 + 1)"):
                st = st - {"stale"}
            elif v == "location.address":
                st = st | {"tracker=location"}
        return st
    W = forward_worlds(cfg, transfer, cet)
    D = Dtr0Sym(cfg, ys, lambda y: label(y, sel))
    reads = [y for y in ys if label(y, sel) == "ReadMemoryLocation"]
    run.floor("read_raw ReadMemoryLocation yields", len(reads), 1)
    # the symbolic tracker follows a selection of the form `<location
    # address> != <local tracker>`; a DTR0 load decided by data computed
    # beforehand (a table of flags zipped with the locations) relates two
    # sequences element by element, which it cannot follow
    for y in ys:
        if label(y, sel) != "DTR0":
            continue
        for (l_, p_) in y.node.pred:
            if p_.kind == "test" and ".address" not in unparse(p_.ast) \
                    and "dtr0" not in unparse(p_.ast).lower():
                raise AnalysisError(
                    "%s: the DTR0 load is guarded by `%s`, which is not a "
                    "comparison of the location's address with a tracker "
                    "the rule can follow" % (Q, unparse(p_.ast)))
    for y in reads:
        run.ob("R-MEMR-ORDER", Q + "#DTR1-before-read",
               W.must(y.node, "dtr1"),
               "ReadMemoryLocation can be reached without DTR1 := bank "
               "address", where(mod, y.node))
        us = D.u_at(y.node)
        run.ob("R-MEMR-ORDER", Q + "#DTR0-selects-location",
               us == {("location.address", 0)},
               "at this read the unit's DTR0 is %s on some path, not the "
               "address of the location being read (DTR0 must be loaded "
               "with location.address unless the previous read's "
               "auto-increment already left it there, which the local "
               "tracker must mirror)" % sorted(us), where(mod, y.node),
               sample={"rule": "R-MEMR-ORDER", "unit_DTR0_at_read":
                       sorted(us)})
    # loop covers cls.locations in order; result bytes(result)
    loops = [n for n in cfg.reachable if n.kind == "for"]
    run.ob("R-MEMR-ORDER", Q + "#all-locations",
           len(loops) == 1 and unparse(loops[0].ast.iter) == "cls.locations",
           "read_raw must iterate cls.locations", where(mod, fn))
    # exception classes
    _check_answer_classes(run, mod, Q, fn, cfg, ynode, {
        "missing": "MemoryLocationNotImplemented",
        "garbled": "ResponseError"})


_WORLD = {}


def world_of(run):
    return _WORLD.get("w")


def answer_class_edges(cet):
    """Edge transfer: cond facts of `cet`, plus the sticky flags 'missing'
    (an answer's raw_value tested to be None) and 'garbled' (its error
    attribute tested true)."""
    def et(src, label, dst, state):
        o = cet(src, label, dst, state)
        if o is None or src.kind != "test" or label not in ("T", "F"):
            return o
        for f in o - state:
            if isinstance(f, tuple) and f[0] == "cond" and f[2] is True:
                if f[1].endswith(".raw_value is None"):
                    o = o | {"missing"}
                elif f[1].endswith(".raw_value.error"):
                    o = o | {"garbled"}
        return o
    return et


def _raise_classes(fn, stmt):
    """Exception classes a `raise` statement may raise: the class called in
    the statement, or those called in the assignments of the name raised."""
    e = stmt.exc
    if e is None:
        return {"<re-raise>"}
    if isinstance(e, ast.Call):
        return {unparse(e.func)}
    if isinstance(e, ast.Name):
        out = set()
        for n in ast.walk(fn):
            if isinstance(n, ast.Assign) and any(
                    isinstance(t, ast.Name) and t.id == e.id
                    for t in n.targets):
                v = n.value
                if isinstance(v, ast.Constant) and v.value is None:
                    continue
                out.add(unparse(v.func) if isinstance(v, ast.Call)
                        else unparse(v))
        return out or {unparse(e)}
    return {unparse(e)}


def _check_answer_classes(run, mod, Q, fn, cfg, ynode, want, W=None):
    """Once an answer has been found missing / garbled the sequence must not
    return normally, and the `raise` it ends in names the documented class."""
    if W is None:
        cet = answer_class_edges(cond_edge_transfer())

        def transfer(node, st):
            return kill_conds_on_assign(node, st)
        W = forward_worlds(cfg, transfer, cet)
    seen = set()
    for ws in W.IN.values():
        for w in ws:
            seen |= {f for f in w if f in want}
    for flag, exc in sorted(want.items()):
        tested = flag in seen
        run.ob("R-RDISC", "%s#%s-answer-tested" % (Q, flag), tested,
               "no test of an answer being %s (%s) found on any path"
               % (flag, "raw_value is None" if flag == "missing"
                  else "raw_value.error"), where(mod, fn))
        if not tested:
            continue
        bad = W.worlds_with(cfg.exit, lambda w: flag in w)
        run.ob("R-RDISC", "%s#%s-answer-never-returns" % (Q, flag), not bad,
               "the sequence can return normally after an answer was found "
               "%s (documented: %s): %s" % (
                   flag, exc, path_str(W.trace(cfg.exit, bad[0])[-12:], 12)
                   if bad else ""), where(mod, fn))
        classes = set()
        for n in cfg.reachable:
            if n.kind == "stmt" and isinstance(n.ast, ast.Raise) and \
                    W.worlds_with(n, lambda w: flag in w):
                classes |= _raise_classes(fn, n.ast)
        classes = {c.split(".")[-1] for c in classes}
        run.ob("R-RDISC", "%s#%s->%s" % (Q, flag, exc), classes == {exc},
               "after a %s answer the sequence raises %s; documented is %s"
               % (flag, sorted(classes), exc), where(mod, fn),
               sample={"rule": "R-RDISC", "answer": flag,
                       "raises": sorted(classes)})


def _check_raise_classes(run, world, mod, Q, cfg, want):
    for n in cfg.reachable:
        if n.kind != "test":
            continue
        t = unparse(n.ast)
        for frag, exc in want.items():
            if t.endswith(frag):
                tgt = [m for (l, m) in n.succ if l == "T"]
                ok = bool(tgt) and all(
                    m.kind == "stmt" and isinstance(m.ast, ast.Raise)
                    and unparse(m.ast.exc.func if isinstance(
                        m.ast.exc, ast.Call) else m.ast.exc) == exc
                    for m in tgt)
                run.ob("R-RDISC", "%s#%s->%s" % (Q, frag, exc), ok,
                       "`%s` must raise %s" % (t, exc), where(mod, n))


def _check_snap(run, world, mod, rfn):
    run.rule("R-MEMR-SNAP", "read and from_list interpret raw bytes with the "
             "same expression; read_all drops exactly "
             "MemoryLocationNotImplemented; list index == location address")
    ffn = world.method(MV, "from_list")[2]
    from ..normal import normalise
    mvcls = world.cls(MV)

    def interp_returns(fn):
        """Return expressions after inlining helpers; an interpretation
        `cls.check_raw(X) or cls.raw_to_value(X)` of one name X is written
        with X as `raw`."""
        nf = normalise(fn, world, LOC, mvcls, aliases="params")
        from ..inline import InlineBlock
        from ..unroll import fold_or_idiom
        fold_or_idiom(nf)     # `t = A; if t: return t; return B` is `A or B`
        out = []
        tmp = {}       # __ret_N -> [value expressions]

        def own(stmts):
            """Nodes of this function, not of inlined callees."""
            for s_ in stmts:
                if isinstance(s_, InlineBlock):
                    t = s_.target
                    if isinstance(t, ast.Name) and t.id.startswith("__ret_"):
                        tmp[t.id] = [r.value for r in own(s_.body)
                                     if isinstance(r, ast.Return) and
                                     r.value is not None]
                    continue
                yield s_
                for fld in ("body", "orelse", "finalbody"):
                    sub = getattr(s_, fld, None)
                    if isinstance(sub, list) and sub and isinstance(
                            sub[0], ast.stmt):
                        yield from own(sub)
                for h in getattr(s_, "handlers", []):
                    yield from own(h.body)
        nodes = list(own(nf.body))
        for n in nodes:
            if isinstance(n, ast.Assign) and len(n.targets) == 1 and \
                    isinstance(n.targets[0], ast.Name) and \
                    n.targets[0].id.startswith("__ret_"):
                tmp[n.targets[0].id] = [n.value]
        vals = []
        for n in nodes:
            if not (isinstance(n, ast.Return) and n.value is not None):
                continue
            v = n.value
            if isinstance(v, ast.Name) and v.id in tmp:
                vals += tmp[v.id]     # the value of an inlined helper call
            else:
                vals.append(v)
        for v in vals:
            if isinstance(v, ast.BoolOp) and isinstance(v.op, ast.Or) and \
                    len(v.values) == 2 and all(
                        isinstance(c, ast.Call) and len(c.args) == 1 and
                        not c.keywords and isinstance(c.args[0], ast.Name)
                        for c in v.values) and \
                    v.values[0].args[0].id == v.values[1].args[0].id:
                out.append("%s(raw) or %s(raw)" % (
                    unparse(v.values[0].func), unparse(v.values[1].func)))
            else:
                out.append(unparse(v))
        return out
    rret = interp_returns(rfn)
    fret = interp_returns(ffn)
    want = "cls.check_raw(raw) or cls.raw_to_value(raw)"
    run.ob("R-MEMR-SNAP", MV + "#read~from_list",
           rret == [want] and fret == [want],
           "read returns %s, from_list returns %s; both must be `%s`"
           % (rret, fret, want), where(mod, ffn),
           sample={"rule": "R-MEMR-SNAP", "read": rret, "from_list": fret})
    # from_list: indexes list_ by location.address, None/IndexError ->
    # MemoryLocationNotImplemented, bytes in location order
    # helpers and comprehensions of from_list written out first
    from ..normal import expand_listcomps_with_calls
    from ..memseq import PRIMITIVES as _PRIMS
    ffn = normalise(expand_listcomps_with_calls(ffn), world, LOC, mvcls,
                    primitives=_PRIMS, aliases="params")
    lparam = ffn.args.args[1].arg
    loops = [n for n in ast.walk(ffn) if isinstance(n, ast.For)]
    order = len(loops) == 1 and unparse(loops[0].iter) == "cls.locations" \
        and isinstance(loops[0].target, ast.Name)
    lvar = loops[0].target.id if order else "location"
    set_parents_local(ffn)
    subs = [n for n in ast.walk(ffn) if isinstance(n, ast.Subscript) and
            unparse(n.value) == lparam]
    idx = bool(subs) and all(unparse(n.slice) == lvar + ".address"
                             for n in subs)
    raises = [unparse(n.exc.func) for n in ast.walk(ffn) if isinstance(
        n, ast.Raise) and isinstance(n.exc, ast.Call)]
    handlers = ["IndexError" for n in subs if _index_protected(
        n, lparam, lvar + ".address")]
    if len(handlers) != len(subs):
        handlers = []
    none_test = any(isinstance(n, ast.Compare) and unparse(n).endswith(
        "is None") for n in ast.walk(ffn))
    run.ob("R-MEMR-SNAP", MV + ".from_list#extract",
           idx and order and raises and set(raises) == {
               "MemoryLocationNotImplemented"} and "IndexError" in handlers
           and none_test,
           "from_list must take list_[location.address] for each of "
           "cls.locations in order and raise MemoryLocationNotImplemented "
           "for a missing or None entry (index=%s order=%s raises=%s "
           "handlers=%s none-test=%s)" % (idx, order, raises, handlers,
                                          none_test), where(mod, ffn))


def _check_read_all(run, world, mod, Q, fn, cfg, ys, sel):
    ynode = {y.node.id: y for y in ys}
    names = [label(y, sel) for y in ys]
    allowed = {"DTR0", "ReadMemoryLocation", "EnableWriteMemory",
               "WriteMemoryLocationNoReply", "from:self.LastAddress.read"}
    run.ob("R-MEMR-RO", Q + "#commands", set(names) <= allowed and
           "ReadMemoryLocation" in names,
           "read_all yields %s (allowed %s)" % (sorted(set(names)),
                                                sorted(allowed)),
           where(mod, fn))
    # writes: only 0xAA / 0xFF constants, each directly after DTR0(addr, 2)
    writes = [y for y in ys if label(y, sel).startswith("WriteMemoryLocation")]
    for y in writes:
        v = const_arg(y, 1)
        prev = _prev_yields(y.node, ynode)
        okp = bool(prev) and all(p is not None and label(p, sel) == "DTR0"
                                 and const_arg(p, 1) == 2 for p in prev)
        run.ob("R-MEMR-RO", "%s#write(%s)" % (Q, hex(v) if v is not None
                                              else unparse(y.arg(1))),
               v in (0xAA, 0xFF) and okp and label(y, sel) ==
               "WriteMemoryLocationNoReply",
               "the only writes a read may issue are 0xAA / 0xFF to the "
               "lock byte (location 2, DTR0(addr, 2) immediately before); "
               "got value %s, preceded by %s" % (
                   v, [label(p, sel) if p else None for p in prev]),
               where(mod, y.node))

    cet = answer_class_edges(cond_edge_transfer())
    reads0 = [y for y in ys if label(y, sel) == "ReadMemoryLocation"]
    read_loop_ids = set()
    read_loops = [n.ast for n in cfg.reachable if n.kind == "for" and any(
        y.node.id in _loop_ids(n) for y in reads0)]
    for n in cfg.reachable:
        if n.kind == "stmt" and isinstance(n.ast, ast.Break):
            p = getattr(n.ast, "_parent", None)
            while p is not None and not isinstance(p, (ast.For, ast.While)):
                p = getattr(p, "_parent", None)
            if p in read_loops:
                read_loop_ids.add(n.id)

    def transfer(node, st):
        st = kill_conds_on_assign(node, st)
        if node.kind == "stmt" and isinstance(node.ast, ast.Assign) and len(
                node.ast.targets) == 1 and isinstance(
                    node.ast.targets[0], ast.Name):
            # constants bound to locals (the start address per bank kind)
            nm_ = node.ast.targets[0].id
            st = frozenset(f for f in st if not (
                isinstance(f, tuple) and f[0] == "val" and f[1] == nm_))
            v_ = node.ast.value
            if isinstance(v_, ast.Constant) and type(v_.value) is int:
                st = st | {("val", nm_, v_.value)}
        if node.kind == "stmt" and isinstance(node.ast, ast.Break) and \
                node.id in read_loop_ids:
            st = st | {"early-break"}
        y = ynode.get(node.id)
        if y is None:
            return st
        nm = label(y, sel)
        # write-enable typestate
        if nm == "EnableWriteMemory":
            st = st | {"wen"}
        elif nm.startswith("from:") or nm not in WEN_KEEP:
            st = st - {"wen"}
        # DTR0 == 2 knowledge
        if nm == "DTR0" and const_arg(y, 1) == 2:
            st = st | {"dtr0=2"}
        elif nm == "WriteMemoryLocationNoReply":
            v = const_arg(y, 1)
            if "dtr0=2" in st and v == 0xAA and "wen" in st:
                st = st | {"latched"}
            if "dtr0=2" in st and v == 0xFF and "wen" in st:
                st = st - {"latched"}
            st = st - {"dtr0=2"}
        else:
            st = st - {"dtr0=2"}
        return st
    W = forward_worlds(cfg, transfer, cet)
    run.analysed["read_all worlds at exit"] = len(W.at(cfg.exit))

    # a garbled answer anywhere in the bank ends in ResponseError (a missing
    # one is data: the values located there are left out)
    run.rule("R-RDISC", "")
    _check_answer_classes(run, mod, Q, fn, cfg, ynode,
                          {"garbled": "ResponseError"}, W=W)

    run.rule("R-WEN", "every WriteMemoryLocation(NoReply) is issued in "
             "write-enabled state on all paths")
    for y in writes:
        bad = W.worlds_with(y.node, lambda w: "wen" not in w)
        v = const_arg(y, 1)
        run.ob("R-WEN", "%s#write(%s)" % (Q, hex(v) if v is not None else "?"),
               not bad,
               "this write is reached with write-enable already cleared "
               "(ReadMemoryLocation and every other command outside the "
               "DTR/write set clear it): a conforming unit ignores the "
               "write: %s" % (path_str(_tail(W.trace(y.node, bad[0]), ynode,
                                             sel), 10) if bad else ""),
               where(mod, y.node),
               sample={"rule": "R-WEN", "write": unparse(y.expr),
                       "worlds": [sorted(f for f in w if isinstance(f, str))
                                  for w in W.at(y.node)][:4]})

    run.rule("R-MEMR-LATCH", "latch (0xAA) is paired with un-latch (0xFF) "
             "on every normal and raising exit; same guard")
    latch = [y for y in writes if const_arg(y, 1) == 0xAA]
    unl = [y for y in writes if const_arg(y, 1) == 0xFF]
    run.ob("R-MEMR-LATCH", Q + "#has-bracket", len(latch) == 1 and
           len(unl) >= 1, "expected one latch write and an un-latch write",
           where(mod, fn))
    for ex, what in ((cfg.exit, "normal exit"),
                     (cfg.raise_exit, "raising exit")):
        bad = W.worlds_with(ex, lambda w: "latched" in w)
        # exceptional edges out of yields (driver abort) are out of scope:
        # only explicit raise statements count for the raising exit
        if ex is cfg.raise_exit:
            bad = [w for w in bad if _via_explicit_raise(W, ex, w)]
        run.ob("R-MEMR-LATCH", "%s#%s" % (Q, what.replace(" ", "-")),
               not bad,
               "the bank is left latched on a %s: %s" % (
                   what, path_str(_tail(W.trace(ex, bad[0]), ynode, sel), 12)
                   if bad else ""), where(mod, fn),
               sample={"rule": "R-MEMR-LATCH", "exit": what,
                       "worlds": len(W.at(ex))})
    # latch - and un-latch - only when asked and supported: a read that was
    # told not to latch writes nothing (it would release a latch the caller
    # holds, or re-lock a bank the caller unlocked)
    for y in unl:
        ok = W.must(y.node, ("cond", "use_latch", True)) and W.must(
            y.node, ("cond", "self.has_latch", True))
        run.ob("R-MEMR-LATCH", Q + "#unlatch-guard", ok,
               "the un-latch write must be guarded by use_latch and "
               "self.has_latch, like the latch write", where(mod, y.node))
    for y in latch:
        ok = W.must(y.node, ("cond", "use_latch", True)) and W.must(
            y.node, ("cond", "self.has_latch", True))
        run.ob("R-MEMR-LATCH", Q + "#latch-guard", ok,
               "the latch write must be guarded by use_latch and "
               "self.has_latch", where(mod, y.node))

    # ---- order / tracker ----------------------------------------------------
    reads = [y for y in ys if label(y, sel) == "ReadMemoryLocation"]
    la = [y for y in ys if label(y, sel) == "from:self.LastAddress.read"]
    run.ob("R-MEMR-ORDER", Q + "#last-address-first",
           len(la) == 1 and all(_dominated_by(cfg, y.node, la[0].node)
                                for y in ys if y is not la[0]),
           "LastAddress.read (which also sets DTR1 := bank) must come first",
           where(mod, fn))
    # start address (the first argument of the read loop's range) per kind of
    # bank: the worlds reaching the loop carry its constant and what was
    # tested about self.address
    rloops = [n for n in cfg.reachable if n.kind == "for" and any(
        y.node.id in _loop_ids(n) for y in reads)]
    start_name = None
    if len(rloops) == 1:
        it = rloops[0].ast.iter
        if isinstance(it, ast.Call) and unparse(it.func) == "range" and len(
                it.args) == 2 and isinstance(it.args[0], ast.Name):
            start_name = it.args[0].id
    got = set()
    if start_name is not None:
        for w in W.at(rloops[0]):
            vals = {f[2] for f in w if isinstance(f, tuple) and f[0] == "val"
                    and f[1] == start_name}
            bank0 = {f[2] for f in w if isinstance(f, tuple) and f[0] ==
                     "cond" and f[1] == "self.address == 0"}
            got.add((tuple(sorted(vals)), tuple(sorted(bank0))))
    run.ob("R-MEMR-ORDER", Q + "#start-address",
           got == {((2,), (True,)), ((3,), (False,))},
           "the read loop starts at %s (start value, self.address == 0) on "
           "the paths reaching it; bank 0 starts at 0x02, other banks at "
           "0x03 (0x02 is their lock byte)" % sorted(got), where(mod, fn),
           sample={"rule": "R-MEMR-ORDER", "start": sorted(got)})
    # unit DTR0 at every read == the location the loop is at (symbolic
    # tracking: 1 after LastAddress.read, +1 per read/write, DTR0 loads)
    D = Dtr0Sym(cfg, ys, lambda y: label(y, sel), after_from=lambda y: (
        "1", 0) if label(y, sel) == "from:self.LastAddress.read" else None)
    for y in reads:
        lp = [n for n in cfg.reachable if n.kind == "for" and
              y.node.id in _loop_ids(n)]
        want = {(unparse(lp[0].ast.target), 0)} if lp else None
        us = D.u_at(y.node)
        run.ob("R-MEMR-ORDER", Q + "#tracker", us == want,
               "at this read the unit's DTR0 is %s on some path; it must "
               "equal the location the loop is reading (%s): DTR0 := start "
               "must be issued exactly when the value left by "
               "LastAddress.read / the latch write differs from it"
               % (sorted(us), sorted(want) if want else None),
               where(mod, y.node),
               sample={"rule": "R-MEMR-ORDER", "unit_DTR0_at_read":
                       sorted(us)})
    # read loop: range(start_address, last_address + 1), one append per
    # iteration, no early loop exit on a normal path
    loops = [n for n in cfg.reachable if n.kind == "for" and any(
        y.node.id in _loop_ids(n) for y in reads)]
    run.rule("R-MEMR-SNAP", "")
    if len(loops) != 1:
        run.ob("R-MEMR-SNAP", Q + "#read-loop", False,
               "expected exactly one read loop", where(mod, fn))
        return
    loop = loops[0]
    lavar = unparse(la[0].node.ast.targets[0]) if la and isinstance(
        la[0].node.ast, ast.Assign) else None
    it = loop.ast.iter
    stop_ok = False
    if isinstance(it, ast.Call) and unparse(it.func) == "range" and len(
            it.args) == 2 and isinstance(it.args[1], ast.BinOp) and \
            isinstance(it.args[1].op, ast.Add):
        stop_ok = sorted((unparse(it.args[1].left),
                          unparse(it.args[1].right))) == sorted(
                              ("1", str(lavar)))
    run.ob("R-MEMR-SNAP", Q + "#loop-range",
           start_name is not None and stop_ok,
           "the read loop iterates %s, expected range(<start>, %s + 1)"
           % (unparse(loop.ast.iter), lavar), where(mod, loop))
    # list the bytes are appended to: start_name placeholders in front
    lst = None
    for n in cfg.reachable:
        if n.kind == "stmt" and isinstance(n.ast, ast.Assign) and len(
                n.ast.targets) == 1 and isinstance(
                    n.ast.targets[0], ast.Name) and _nones_count(
                        n.ast.value) == start_name:
            lst = n.ast.targets[0].id
    indexed = False
    if lst is None:
        # the image allocated once and filled by index: `L = [None] * N`,
        # `L[<loop variable>] = byte` - index == address by construction;
        # N must reach the last accessible location
        lv = unparse(loop.ast.target)
        for n in cfg.reachable:
            if n.kind == "stmt" and isinstance(n.ast, ast.Assign) and len(
                    n.ast.targets) == 1 and isinstance(
                        n.ast.targets[0], ast.Name):
                cnt = _nones_count(n.ast.value)
                if cnt is None:
                    continue
                nm = n.ast.targets[0].id
                stores = [x for x in ast.walk(loop.ast) if isinstance(
                    x, ast.Subscript) and isinstance(x.ctx, ast.Store) and
                    unparse(x.value) == nm]
                appends = [x for x in ast.walk(fn) if isinstance(
                    x, ast.Call) and isinstance(x.func, ast.Attribute) and
                    x.func.attr in ("append", "extend", "insert", "pop") and
                    unparse(x.func.value) == nm]
                big = {"max(%s, %s + 1)" % (start_name, lavar),
                       "max(%s + 1, %s)" % (lavar, start_name),
                       "%s + 1" % lavar, "1 + %s" % lavar}
                if stores and not appends and all(
                        unparse(x.slice) == lv for x in stores) and \
                        cnt in big:
                    lst, indexed = nm, True
    if lst is None and any(
            isinstance(x, ast.Call) and isinstance(x.func, ast.Attribute) and
            x.func.attr == "append" and x.args and not isinstance(
                x.args[0], ast.Constant) and not any(
                isinstance(y, ast.Attribute) and y.attr in (
                    "as_integer", "value") for y in ast.walk(x.args[0]))
            for x in ast.walk(loop.ast)):
        # the read loop only collects the answers (frames / None) and the
        # image is built from them afterwards: which entries are bytes and
        # which placeholders is then decided away from the checks on the
        # answer, which the snapshot rules do not follow
        raise AnalysisError(
            "%s collects the answers of its read loop and builds the bank "
            "image from them afterwards; the snapshot rules read an image "
            "that is filled where the answer is checked" % Q)
    run.ob("R-MEMR-SNAP", Q + "#list-prefix", lst is not None,
           "the raw list must start as %s placeholders (None) so that "
           "index == location address" % start_name, where(mod, fn))
    if lst is None:
        return
    bad = _iteration_append_counts(loop, lst) if not indexed else set()
    run.ob("R-MEMR-SNAP", Q + "#one-entry-per-location", not bad,
           "an iteration of the read loop can complete with %s entries "
           "appended to %s: the list index no longer equals the location "
           "address" % (sorted(bad), lst), where(mod, loop))
    # leaving the loop early (break) must end in a raise
    early = W.worlds_with(cfg.exit, lambda w: "early-break" in w)
    run.ob("R-MEMR-SNAP", Q + "#no-early-stop", not early,
           "the read loop can stop before the last accessible location and "
           "still return normally: values located above the stop are "
           "silently dropped", where(mod, loop))
    # result: every declared value through from_list(raw list); only
    # MemoryLocationNotImplemented dropped
    calls = [c for c in ast.walk(fn) if isinstance(c, ast.Call) and isinstance(
        c.func, ast.Attribute) and c.func.attr == "from_list"]
    okc = len(calls) == 1 and unparse(calls[0].args[0]) == lst
    tries = [t for t in ast.walk(fn) if isinstance(t, ast.Try) and any(
        c in ast.walk(t) for c in calls)]
    okh = len(tries) == 1 and [unparse(h.type) for h in tries[0].handlers
                               if h.type is not None] == [
        "MemoryLocationNotImplemented"] and len(tries[0].handlers) == 1
    vloops = [n for n in ast.walk(fn) if isinstance(n, ast.For) and unparse(
        n.iter) == "self.values"]
    run.ob("R-MEMR-SNAP", Q + "#interpretation", okc and okh and
           len(vloops) == 1,
           "every value of self.values must be derived by "
           "memory_value.from_list(%s), dropping exactly "
           "MemoryLocationNotImplemented" % lst, where(mod, fn))
    # ... and every value that was interpreted is reported: from the call's
    # normal exit no path reaches the next value (or the end) without
    # storing the result under the value - "exactly the values whose
    # locations are all implemented", whatever they decode to
    vheads = [n for n in cfg.reachable if n.kind == "for" and unparse(
        n.ast.iter) == "self.values"]
    csites = [n for n in cfg.reachable if n.kind == "stmt" and any(
        isinstance(c, ast.Call) and isinstance(c.func, ast.Attribute) and
        c.func.attr == "from_list" for c in _walk_no_nested(n.ast))]
    if len(vheads) == 1 and len(csites) == 1:
        head, cs = vheads[0], csites[0]
        var = unparse(head.ast.target)
        rname = None
        if isinstance(cs.ast, ast.Assign) and isinstance(
                cs.ast.targets[0], ast.Name):
            rname = cs.ast.targets[0].id

        def is_store(n):
            a = n.ast
            if not (n.kind == "stmt" and isinstance(a, ast.Assign) and len(
                    a.targets) == 1 and isinstance(
                        a.targets[0], ast.Subscript)):
                return False
            if unparse(a.targets[0].slice) != var:
                return False
            v = a.value
            return (rname is not None and isinstance(v, ast.Name) and
                    v.id == rname) or any(
                isinstance(c, ast.Call) and isinstance(
                    c.func, ast.Attribute) and c.func.attr == "from_list"
                for c in ast.walk(v))
        skipped = None
        if not is_store(cs):
            seen, stack = set(), [(m, [cs]) for (l, m) in cs.succ
                                  if l != "exc"]
            while stack:
                n, path = stack.pop()
                if n.id in seen:
                    continue
                seen.add(n.id)
                if is_store(n):
                    continue
                if n is head or n is cfg.exit:
                    skipped = path + [n]
                    break
                stack += [(m, path + [n]) for (l, m) in n.succ if l != "exc"]
        run.ob("R-MEMR-SNAP", Q + "#every-interpreted-value-reported",
               skipped is None,
               "a value whose locations were all read can be left out of the "
               "result: from `%s` the next value is reached without storing "
               "the result under `%s` (%s)" % (
                   unparse(cs.ast, 60), var, " -> ".join(
                       "L%s" % x.lineno for x in (skipped or [])
                       if x.lineno)), where(mod, cs))
    else:
        raise AnalysisError("%s: the loop over self.values / its from_list "
                            "call is not in a form the rule can follow" % Q)


_UP = {}


def set_parents_local(fn):
    """Parent map of fn's nodes (a dict, not an attribute: the context
    nodes Load / Store are shared by every tree the parser builds, and an
    attribute on them would be dragged into every later deep copy)."""
    _UP.clear()
    for n in ast.walk(fn):
        for ch in ast.iter_child_nodes(n):
            if not isinstance(ch, ast.expr_context):
                _UP[id(ch)] = n


def _index_protected(sub, lst, idx):
    """The read lst[idx] cannot escape with IndexError: an enclosing try
    catches it, or it is evaluated only where idx < len(lst) was tested."""
    guards = ("%s < len(%s)" % (idx, lst), "len(%s) > %s" % (lst, idx))
    nguards = ("%s >= len(%s)" % (idx, lst), "len(%s) <= %s" % (lst, idx))
    n = sub
    while _UP.get(id(n)) is not None:
        p = _UP[id(n)]
        if isinstance(p, ast.Try) and n in p.body:
            for h in p.handlers:
                names = [unparse(t) for t in (
                    h.type.elts if isinstance(h.type, ast.Tuple)
                    else [h.type])] if h.type is not None else ["<bare>"]
                if set(names) & {"IndexError", "LookupError", "Exception",
                                 "<bare>"}:
                    return True
        if isinstance(p, ast.IfExp):
            t = unparse(p.test)
            if (n is p.body and t in guards) or (
                    n is p.orelse and t in nguards):
                return True
        if isinstance(p, ast.If):
            t = unparse(p.test)
            if (n in p.body and t in guards) or (
                    n in p.orelse and t in nguards):
                return True
        n = p
    return False


def _nones_count(v):
    """Text of N when v builds a list of N None placeholders."""
    def none(e):
        return isinstance(e, ast.Constant) and e.value is None
    if isinstance(v, ast.BinOp) and isinstance(v.op, ast.Mult):
        for a, b in ((v.left, v.right), (v.right, v.left)):
            if isinstance(a, ast.List) and len(a.elts) == 1 and none(
                    a.elts[0]):
                return unparse(b)
    if isinstance(v, ast.ListComp) and none(v.elt) and len(
            v.generators) == 1 and not v.generators[0].ifs and isinstance(
                v.generators[0].iter, ast.Call) and unparse(
                    v.generators[0].iter.func) == "range" and len(
                        v.generators[0].iter.args) == 1:
        return unparse(v.generators[0].iter.args[0])
    if isinstance(v, ast.Call) and unparse(v.func) == "list" and len(
            v.args) == 1 and isinstance(v.args[0], ast.Call) and unparse(
                v.args[0].func).endswith("repeat") and len(
                    v.args[0].args) == 2 and none(v.args[0].args[0]):
        return unparse(v.args[0].args[1])
    return None


def _via_explicit_raise(W, ex, w):
    """Did the world reach raise_exit through a `raise` statement (rather
    than the exceptional edge of a yield)?"""
    key = (ex.id, w)
    o = W.origin.get(key)
    if o is None:
        return False
    pn, pw = o
    # walk back through with_exit / finally joins
    hops = 0
    while pn.kind in ("join", "with_exit", "dispatch") and hops < 20:
        o = W.origin.get((pn.id, pw))
        if o is None:
            break
        pn, pw = o
        hops += 1
    return pn.kind == "stmt" and isinstance(pn.ast, ast.Raise)


def _tail(path, ynode, sel, keep=14):
    return path[-keep:]


def _prev_yields(node, ynode):
    out, seen = [], set()
    stack = [p for (l, p) in node.pred]
    while stack:
        n = stack.pop()
        if n.id in seen:
            continue
        seen.add(n.id)
        if n.id in ynode:
            out.append(ynode[n.id])
            continue
        if n.kind == "entry":
            out.append(None)
            continue
        stack += [p for (l, p) in n.pred]
    return out


def _dominated_by(cfg, node, dom):
    """Every path entry->node passes dom."""
    seen, stack = set(), [cfg.entry]
    while stack:
        n = stack.pop()
        if n.id in seen or n is dom:
            continue
        seen.add(n.id)
        if n is node:
            return False
        stack += [m for (l, m) in n.succ]
    return True


def _loop_ids(loop):
    fwd, stack = set(), [m for (l, m) in loop.succ if l == "loop"]
    while stack:
        n = stack.pop()
        if n.id in fwd or n is loop:
            continue
        fwd.add(n.id)
        stack += [m for (l, m) in n.succ]
    back, stack = set(), [p for (l, p) in loop.pred if l in ("back",)]
    while stack:
        n = stack.pop()
        if n.id in back or n is loop:
            continue
        back.add(n.id)
        stack += [p for (l, p) in n.pred]
    return (fwd & back) | {loop.id}


def _iteration_append_counts(loop, lst):
    """Set of append counts != 1 over all paths loop-head -> loop-head."""
    bad = set()
    seen = set()
    stack = [(m, 0) for (l, m) in loop.succ if l == "loop"]
    while stack:
        n, c = stack.pop()
        if (n.id, c) in seen or c > 3:
            continue
        seen.add((n.id, c))
        if n is loop:
            if c != 1:
                bad.add(c)
            continue
        if n.kind == "stmt" and n.ast is not None:
            for x in _walk_no_nested(n.ast):
                if isinstance(x, ast.Call) and isinstance(
                        x.func, ast.Attribute) and x.func.attr == "append" \
                        and unparse(x.func.value) == lst:
                    c += 1
        for (l, m) in n.succ:
            if l == "exc":
                continue
            stack.append((m, c))
    return bad
