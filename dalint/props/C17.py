"""C17 - gateway loss, silence and recovery: R-SLOT, R-STATUS, R-WAKE,
R-WRFAIL, R-RETRY, R-RECONNECT, R-TIMEOUT (DESIGN.md section 3, C17)."""
import ast
import json
import os

from ..core import AnalysisError, unparse, where, VERIF
from ..cfg import (CFG, suspension_may_raise, forward_worlds, path_str,
                   _walk_no_nested)
from ..seq import cond_edge_transfer, kill_conds_on_assign
from ..drv import (HID, SER, lock_worlds, call_sites, is_wire_write,
                   methods_of, lock_events)


def _fn(world, cq, name):
    r = world.method(cq, name)
    from ..drv import expand_method
    return r[0], expand_method(world, world.cls(cq), r[2], aliases="params")


def check(run, repo, world):
    run.explanation = (
        "Decides on CFGs with exceptional edges at every await (cancellation "
        "and faults surface there): (R-SLOT) the Tridonic in-flight slot "
        "taken by a send is released - or the whole table cleared by "
        "disconnect - on every exit; (R-STATUS) each status literal of the "
        "driver contract (connected / disconnected / failed) is reported by "
        "some _invoke site and the reconnect-limit branch reaches the "
        "'failed' report; (R-WAKE) disconnect always runs _shutdown_device, "
        "which wakes every kind of waiter with 'fail', and each waiter turns "
        "'fail' into CommunicationError; (R-WRFAIL) every wire write of a "
        "send path is guarded by `except OSError` -> disconnect(reconnect) -> "
        "CommunicationError, the reader maps OSError/EOF likewise; (R-RETRY) "
        "the only swallowed exception in send/power_supply is "
        "CommunicationError under `not exceptions`, inside the retry loop; "
        "(R-RECONNECT) wait interval before reconnecting, counter reset on "
        "success; (R-TIMEOUT) every await on a gateway-fed queue inside a "
        "lock region of serial.py is bounded by wait_for with a class "
        "timeout.  NOT decided: retry counts/intervals against a clock, "
        "'nobody hangs' as a liveness property.")
    run.assumptions += [
        "exceptions and cancellation surface only at await points and "
        "explicit raise statements",
        "the 'fail' message is only produced by _shutdown_device (checked)"]
    spec = json.load(open(os.path.join(VERIF, "spec", "wire", "hid.json")))
    mod = repo.mod(HID)
    _check_slot(run, repo, world, mod)
    _check_status(run, repo, world, mod, spec)
    _check_wake(run, repo, world, mod)
    _check_wrfail(run, repo, world, mod)
    _check_retry(run, repo, world, mod)
    _check_reconnect(run, repo, world, mod)
    _check_timeout(run, repo, world)
    _check_lock_and_prefix(run, repo, world)


# ---------------------------------------------------------------------------
def _check_lock_and_prefix(run, repo, world):
    """Shared with C15: the transaction lock is released on every exit
    (normal, exception, cancellation, gateway timeout) and every retry of a
    command repeats its EnableDeviceType prefix."""
    from .C15 import build, check_lock_pair, _check_edt
    fns, callers = build(world)
    check_lock_pair(run, repo, world, fns)
    _check_edt(run, repo, world, fns)
    # recovery from a silent gateway: what arrives late is discarded before
    # the next command (shared with C16)
    from .C16 import _check_flush, check_serial_order
    _check_flush(run, repo, world)
    # ... and it is discarded by the caller that holds the lock, right before
    # it transmits: a flush made while still queueing for the lock leaves
    # what arrives in between to be taken as this caller's answer
    check_serial_order(run, repo, world, rule="R-FLUSH")


def check_mailbox_wait(run, world, mod, fn, cfg, Q, RULE):
    """Shared with C15 ('every caller eventually completes')."""
    # the sender's event is level-triggered and cleared after each wake-up,
    # while several reports can be queued before the sender runs: it only
    # waits when its mailbox is empty, or a report already queued is never
    # looked at and the sender hangs with the lock and its slot
    ev = ms = None
    for n_ in ast.walk(fn):
        if isinstance(n_, ast.Assign) and any(
                isinstance(t_, ast.Subscript) and unparse(
                    t_.value) == "self._outstanding"
                for t_ in n_.targets) and isinstance(
                    n_.value, ast.Tuple) and len(n_.value.elts) == 2 and all(
                        isinstance(e_, ast.Name) for e_ in n_.value.elts):
            ev, ms = n_.value.elts[0].id, n_.value.elts[1].id
    if ev is None:
        raise AnalysisError("%s: registration of (event, messages) in "
                            "self._outstanding not found" % Q)
    # other names for the same two objects (`with slot() as (event,
    # messages)`: the names bound from the helper's locals)
    evs, mss = {ev}, {ms}
    for _ in range(3):
        for n_ in ast.walk(fn):
            if isinstance(n_, ast.Assign) and len(n_.targets) == 1 and \
                    isinstance(n_.targets[0], ast.Name) and isinstance(
                        n_.value, ast.Name):
                if n_.value.id in evs:
                    evs.add(n_.targets[0].id)
                if n_.value.id in mss:
                    mss.add(n_.targets[0].id)
    Wc = forward_worlds(cfg, kill_conds_on_assign, cond_edge_transfer())
    waits = [n_ for n_ in cfg.reachable if n_.ast is not None and n_.kind in (
        "stmt", "test") and any("%s.wait()" % e_ in unparse(n_.ast, 300)
                                for e_ in evs)]
    run.floor("tridonic sender waits on its event", len(waits), 1)
    empty = []
    for m_ in sorted(mss):
        empty += [("cond", "len(%s) == 0" % m_, True), ("cond", m_, False),
                  ("cond", "len(%s)" % m_, False),
                  ("cond", "len(%s) != 0" % m_, False),
                  ("cond", "len(%s) > 0" % m_, False)]
    for n_ in waits:
        bad = Wc.worlds_with(n_, lambda w: not any(f in w for f in empty))
        run.ob(RULE, Q + "#waits-only-on-empty-mailbox", not bad,
               "the sender can wait on its event while reports are still "
               "queued in `%s` (no test of it being empty on the path): "
               "with two reports queued back to back the second is never "
               "taken and the caller hangs holding the lock" % ms,
               where(mod, n_))


def _check_slot(run, repo, world, mod):
    run.rule("R-SLOT", "in-flight slot released (or table cleared) on every "
             "exit of tridonic._send_raw, including cancellation at an await")
    owner, fn = _fn(world, HID + ".tridonic", "_send_raw")
    Q = HID + ".tridonic._send_raw"
    cfg = CFG(fn, may_raise=suspension_may_raise, name=Q)
    check_mailbox_wait(run, world, mod, fn, cfg, Q, "R-SLOT")
    # _shutdown_device clears the table (so disconnect() releases the slot)
    so, sfn = _fn(world, HID + ".tridonic", "_shutdown_device")
    clears = _clears_table(sfn)
    do, dfn = _fn(world, HID + ".hid", "disconnect")
    calls_sd = _all_paths_call(dfn, "self._shutdown_device()")
    run.ob("R-SLOT", HID + ".tridonic._shutdown_device#clears-table",
           clears and calls_sd,
           "disconnect() -> _shutdown_device() must clear the in-flight "
           "table (clears=%s, always called=%s)" % (clears, calls_sd),
           where(mod, sfn))
    # "fail" comes only from _shutdown_device
    fail_sites = []
    for (c, name, kind, f2) in methods_of(world, HID):
        for n in ast.walk(f2):
            if isinstance(n, ast.Constant) and n.value == "fail":
                p = getattr(n, "_parent", None)
                if isinstance(p, ast.Compare):
                    continue
                fail_sites.append("%s.%s" % (c.name, name))
    run.ob("R-SLOT", HID + "#fail-origin",
           set(fail_sites) <= {"tridonic._shutdown_device",
                               "hasseb._shutdown_device"} and fail_sites,
           "the 'fail' wake-up message is produced outside _shutdown_device: "
           "%s" % sorted(set(fail_sites)), where(mod, sfn))
    cet = cond_edge_transfer()
    acquire = [n for n in cfg.reachable if n.kind == "stmt" and isinstance(
        n.ast, ast.Assign) and unparse(n.ast.targets[0]).startswith(
            "self._outstanding[")]
    if len(acquire) != 1:
        raise AnalysisError("expected one slot insertion in %s" % Q)
    key = unparse(acquire[0].ast.targets[0])[len("self._outstanding["):-1]

    def transfer(node, st):
        st = kill_conds_on_assign(node, st)
        if node.kind != "stmt" or node.ast is None:
            return st
        t = unparse(node.ast)
        if node is acquire[0]:
            return st | {"slot"}
        if isinstance(node.ast, ast.Delete) and any(
                unparse(x) == "self._outstanding[%s]" % key
                for x in node.ast.targets):
            return st - {"slot"}
        if "self._outstanding.pop(%s" % key in t:
            return st - {"slot"}
        if "self.disconnect(" in t and clears and calls_sd:
            return st - {"slot"}
        return st

    def edge(src, label, dst, st):
        st = cet(src, label, dst, st)
        if st is None:
            return None
        if src.kind == "test" and label == "T" and unparse(src.ast) in (
                "message == 'fail'",):
            # the table was cleared by _shutdown_device when it queued 'fail'
            st = st - {"slot"}
        return st
    W = forward_worlds(cfg, transfer, edge)
    for ex, what in ((cfg.exit, "normal exit"),
                     (cfg.raise_exit, "exception / cancellation exit")):
        bad = W.worlds_with(ex, lambda w: "slot" in w)
        run.ob("R-SLOT", "%s#%s" % (Q, what.split()[0]), not bad,
               "the slot self._outstanding[%s] is still taken at the %s "
               "(e.g. the caller is cancelled while waiting): after the "
               "sequence numbers wrap, `assert seq not in self._outstanding` "
               "fails: %s" % (key, what, path_str(
                   W.trace(ex, bad[0])[-8:], 8) if bad else ""),
               where(mod, fn),
               sample={"rule": "R-SLOT", "exit": what,
                       "worlds": len(W.at(ex))})
    # semaphore / lock regions are released on every exit: `async with`, or
    # `await <serialiser>.acquire()` paired with a release on every path out
    # (try/finally) - decided on the flow graph with the lockset analysis of
    # drv.py, where a cancelled acquire does not hold the lock
    from ..drv import lock_events, lock_worlds
    n_with = 0
    SER = ("_command_semaphore", "_command_lock")
    for (c, name, kind, f2) in methods_of(world, HID):
        for n in ast.walk(f2):
            if isinstance(n, ast.AsyncWith) and any(
                    unparse(it.context_expr) in ("self." + x for x in SER)
                    for it in n.items):
                n_with += 1
        by_hand = [n for n in ast.walk(f2) if isinstance(n, ast.Call) and
                   isinstance(n.func, ast.Attribute) and
                   n.func.attr == "acquire" and unparse(n.func.value) in (
                       "self." + x for x in SER)]
        if not by_hand:
            continue
        cfg2 = CFG(f2, may_raise=suspension_may_raise,
                   name="%s.%s" % (c.name, name))
        W2 = lock_worlds(cfg2)
        for ln in sorted({l for n_ in cfg2.reachable
                          for (k, l) in lock_events(n_)
                          if k == "acquire" and l in SER}):
            n_with += 1
            for ex, what in ((cfg2.exit, "normal"),
                             (cfg2.raise_exit, "exception / cancellation")):
                bad = W2.worlds_with(ex, lambda w, ln=ln: ("held", ln) in w)
                run.ob("R-SLOT", "%s.%s.%s#raw-acquire" % (HID, c.name,
                                                           name),
                       not bad, "the gateway serialiser %s is taken with a "
                       "bare acquire() and still held at the %s exit (%s): "
                       "every later command waits for it for ever" % (
                           ln, what, path_str(W2.trace(ex, bad[0])[-8:], 8)
                           if bad else ""), where(mod, by_hand[0]))
    run.floor("async-with serialiser regions in hid.py", n_with, 3)


def _clears_table(sfn):
    """self._outstanding is emptied / replaced by an empty dict by a
    top-level statement of _shutdown_device."""
    for n in sfn.body:
        if isinstance(n, ast.Expr) and unparse(n) == \
                "self._outstanding.clear()":
            return True
        if isinstance(n, ast.Assign) and len(n.targets) == 1:
            t, v = n.targets[0], n.value
            pairs = [(t, v)]
            if isinstance(t, ast.Tuple) and isinstance(v, ast.Tuple) and \
                    len(t.elts) == len(v.elts):
                pairs = list(zip(t.elts, v.elts))
            for (a, b) in pairs:
                if unparse(a) == "self._outstanding" and unparse(b) in (
                        "{}", "dict()"):
                    return True
    return False


def _table_aliases(sfn):
    """Local names holding the in-flight table (e.g. after swapping it out
    for a fresh dict)."""
    out = {"self._outstanding"}
    for n in ast.walk(sfn):
        if isinstance(n, ast.Assign) and len(n.targets) == 1:
            t, v = n.targets[0], n.value
            pairs = [(t, v)]
            if isinstance(t, ast.Tuple) and isinstance(v, ast.Tuple) and \
                    len(t.elts) == len(v.elts):
                pairs = list(zip(t.elts, v.elts))
            for (a, b) in pairs:
                if isinstance(a, ast.Name) and unparse(b) == \
                        "self._outstanding":
                    out.add(a.id)
    return out


def _all_paths_call(fn, text):
    cfg = CFG(fn, may_raise=lambda n: False, name=fn.name)
    hit = [n for n in cfg.reachable if n.kind == "stmt" and n.ast is not None
           and unparse(n.ast) == text]
    if not hit:
        return False
    # exit unreachable when avoiding the hit nodes
    ids = {n.id for n in hit}
    seen, stack = set(), [cfg.entry]
    while stack:
        n = stack.pop()
        if n.id in seen or n.id in ids:
            continue
        seen.add(n.id)
        if n is cfg.exit:
            return False
        stack += [m for (l, m) in n.succ]
    return True


# ---------------------------------------------------------------------------
def _check_status(run, repo, world, mod, spec):
    run.rule("R-STATUS", "every status literal of the driver contract is "
             "reported; the reconnect-limit branch reports 'failed'")
    lits = {}
    for (c, name, kind, f2) in methods_of(world, HID):
        for n in call_sites(f2):
            if unparse(n.func) == "self.connection_status_callback._invoke" \
                    and n.args and isinstance(n.args[0], ast.Constant):
                lits.setdefault(n.args[0].value, []).append(
                    "%s.%s" % (c.name, name))
    for lit in spec["tridonic"]["status_literals"]:
        run.ob("R-STATUS", HID + "#status:" + lit, lit in lits,
               "status %r is documented (\"connected\", \"disconnected\" or "
               "\"failed\") but no connection_status_callback._invoke(%r) "
               "exists: subscribers are never told" % (lit, lit),
               where(mod, world.cls(HID + ".hid").node),
               sample={"rule": "R-STATUS", "literal": lit,
                       "sites": lits.get(lit, [])})
    for lit in lits:
        run.ob("R-STATUS", HID + "#known:" + str(lit),
               lit in spec["tridonic"]["status_literals"],
               "undocumented status literal %r" % lit, where(
                   mod, world.cls(HID + ".hid").node), trivial=True)
    owner, fn = _fn(world, HID + ".hid", "_reconnect")
    Q = HID + ".hid._reconnect"
    cfg = CFG(fn, may_raise=suspension_may_raise, name=Q)
    cet = cond_edge_transfer()

    def tr(node, st):
        st = kill_conds_on_assign(node, st)
        if node.kind == "stmt" and node.ast is not None:
            t = unparse(node.ast)
            if t == "self.connection_status_callback._invoke('failed')":
                st = st | {"failed-reported"}
            if t == "self.connect()":
                st = st | {"reconnected"}
            if "asyncio.sleep(self._reconnect_interval)" in t:
                st = st | {"waited"}
        return st
    W = forward_worlds(cfg, tr, cet)
    # connect() may schedule the next attempt and store its handle in
    # _reconnect_task: the task's own handle is dropped *before* connect()
    # is called, never after it (the handle of the attempt just scheduled
    # would be overwritten and disconnect() could no longer cancel it)
    late = [n for n in cfg.reachable if n.kind == "stmt" and isinstance(
        n.ast, ast.Assign) and any(unparse(t_) == "self._reconnect_task"
                                   for t_ in n.ast.targets) and
        W.worlds_with(n, lambda w: "reconnected" in w)]
    run.ob("R-RECONNECT", Q + "#handle-dropped-before-connect", not late,
           "self._reconnect_task is assigned after connect() was called "
           "(line %s): a failed attempt overwrites the handle of the next "
           "attempt it has just scheduled, which disconnect() then cannot "
           "cancel" % (late[0].lineno if late else ""), where(mod, fn))
    bad = W.worlds_with(cfg.exit, lambda w: "reconnected" not in w and
                        "failed-reported" not in w)
    run.ob("R-STATUS", Q + "#limit-reports-failed", not bad and
           W.reached(cfg.exit),
           "the reconnect task can end without reconnecting and without "
           "reporting 'failed' (limit reached): %s" % (path_str(
               W.trace(cfg.exit, bad[0])[-8:], 8) if bad else ""),
           where(mod, fn))
    badw = W.worlds_with(cfg.exit, lambda w: "reconnected" in w and
                         "waited" not in w)
    run.ob("R-RECONNECT", Q + "#interval", not badw,
           "a reconnection attempt can be made without waiting "
           "reconnect_interval", where(mod, fn))
    from .. import astq as _aq
    # (locals holding the limit / the incremented counter read as what they
    # hold)
    tests = [_aq.canon(fn, n.ast) for n in cfg.reachable if n.kind == "test"]
    incr_aug = any(n.kind == "stmt" and unparse(n.ast) ==
                   "self._reconnect_count += 1" for n in cfg.reachable)
    incr_asg = any(
        n.kind == "stmt" and isinstance(n.ast, ast.Assign) and unparse(
            n.ast.targets[0]) == "self._reconnect_count" and _aq.canon(
                fn, n.ast.value) in ("self._reconnect_count + 1",
                                     "1 + self._reconnect_count")
        for n in cfg.reachable)
    run.ob("R-RECONNECT", Q + "#limit-test",
           "self._reconnect_limit is not None" in tests and ((
               incr_aug and
               "self._reconnect_count > self._reconnect_limit" in tests) or (
               incr_asg and
               "self._reconnect_count + 1 > self._reconnect_limit" in tests)),
           "the attempt counter must be incremented and compared with the "
           "configured limit (None = unlimited): tests %s" % tests,
           where(mod, fn))
    # the count compared is the count *including* this attempt: with
    # `count > limit` as the test, no path reaches the test without the
    # increment (an increment behind the test makes limit + 1 attempts, and
    # reconnect_limit=0 waits and retries once instead of failing at once)
    if incr_aug and "self._reconnect_count > self._reconnect_limit" in tests:
        from ..cfg import reachable_from

        def is_incr(n):
            return n.kind == "stmt" and unparse(n.ast) == \
                "self._reconnect_count += 1"
        early = reachable_from(cfg.entry, avoid=is_incr)
        late_t = [n for n in early if n.kind == "test" and _aq.canon(
            fn, n.ast) == "self._reconnect_count > self._reconnect_limit"]
        run.ob("R-RECONNECT", Q + "#limit-counts-this-attempt", not late_t,
               "the limit test at line %s can be reached before the attempt "
               "counter is incremented: the driver makes reconnect_limit + 1 "
               "attempts before it reports 'failed' (reconnect_limit=0 "
               "retries once)" % (late_t[0].lineno if late_t else ""),
               where(mod, fn))


def _check_wake(run, repo, world, mod):
    run.rule("R-WAKE", "disconnect -> _shutdown_device wakes every waiter "
             "with 'fail'; waiters raise CommunicationError on 'fail'")
    so, sfn = _fn(world, HID + ".tridonic", "_shutdown_device")
    tabs = _table_aliases(sfn)
    loop = [n for n in ast.walk(sfn) if isinstance(n, ast.For) and unparse(
        n.iter) in {"%s.values()" % t for t in tabs} and isinstance(
            n.target, ast.Tuple) and len(n.target.elts) == 2]
    ok = len(loop) == 1
    if ok:
        ev_, ms_ = [unparse(x) for x in loop[0].target.elts]
        body = [unparse(s) for s in loop[0].body]
        ok = ("%s.append('fail')" % ms_) in body and (
            "%s.set()" % ev_) in body
    run.ob("R-WAKE", HID + ".tridonic._shutdown_device", ok,
           "every in-flight entry must get 'fail' appended and its event set",
           where(mod, sfn))
    ho, hfn = _fn(world, HID + ".hasseb", "_shutdown_device")
    run.ob("R-WAKE", HID + ".hasseb._shutdown_device",
           _unconditional(hfn, ["self._response = 'fail'",
                                "self._response_available.set()"]),
           "the waiting sender must be handed 'fail' and woken",
           where(mod, hfn))
    for cq in (HID + ".tridonic", HID + ".hasseb"):
        o, f2 = _fn(world, cq, "_send_raw")
        from .. import astq
        # what the sender takes from its mailbox: the tridonic pops the list
        # it registered in self._outstanding, the hasseb reads self._response
        boxes = set()
        for n in ast.walk(f2):
            if isinstance(n, ast.Assign) and any(
                    isinstance(t, ast.Subscript) and unparse(
                        t.value) == "self._outstanding" for t in n.targets) \
                    and isinstance(n.value, ast.Tuple):
                boxes |= {unparse(e) for e in n.value.elts}
        for _ in range(3):
            for n in ast.walk(f2):
                if isinstance(n, ast.Assign) and len(n.targets) == 1 and \
                        isinstance(n.targets[0], ast.Name) and isinstance(
                            n.value, ast.Name) and n.value.id in boxes:
                    boxes.add(n.targets[0].id)
        defs = astq._defs(f2)
        tests = []
        for n in ast.walk(f2):
            if not (isinstance(n, ast.If) and isinstance(
                    n.test, ast.Compare) and len(n.test.ops) == 1 and
                    isinstance(n.test.ops[0], ast.Eq)):
                continue
            l_, r_ = n.test.left, n.test.comparators[0]
            if isinstance(l_, ast.Constant):
                l_, r_ = r_, l_
            if not (isinstance(r_, ast.Constant) and r_.value == "fail"):
                continue
            src = l_
            if isinstance(src, ast.Name) and src.id in defs:
                src = defs[src.id]
            st = unparse(src)
            from_box = st == "self._response" or any(
                st == "%s.pop(0)" % b for b in boxes)
            raises = bool(n.body) and isinstance(
                n.body[-1], ast.Raise) and unparse(n.body[-1].exc) in (
                    "CommunicationError", "CommunicationError()")
            tests.append(from_box and raises)
        ok = bool(tests) and all(tests)
        run.ob("R-WAKE", cq + "._send_raw#fail->CommunicationError", ok,
               "a woken sender must turn 'fail' into CommunicationError",
               where(mod, f2))
    # the hasseb sender's event may be set when it starts - by an answer
    # nobody waited for, or by the 'fail' of a disconnect at idle - so it
    # is cleared on every path before the sender waits on it
    ho2, hsr = _fn(world, HID + ".hasseb", "_send_raw")
    hcfg = CFG(hsr, may_raise=suspension_may_raise,
               name=HID + ".hasseb._send_raw")
    EVH = "self._response_available"

    def hhas(node, meth):
        return node.ast is not None and node.kind in ("stmt", "test") and \
            any(isinstance(x_, ast.Call) and unparse(x_.func) ==
                "%s.%s" % (EVH, meth) for x_ in _walk_no_nested(node.ast))

    def htr(node, st):
        if hhas(node, "clear"):
            st = st - {"stale"}
        if hhas(node, "wait"):
            st = st | {"stale"}
        return st
    HW = forward_worlds(hcfg, htr, None, init=frozenset({"stale"}))
    hwaits = [n_ for n_ in hcfg.reachable if hhas(n_, "wait")]
    run.floor("hasseb sender waits on its event", len(hwaits), 1)
    for n_ in hwaits:
        bad = HW.worlds_with(n_, lambda w: "stale" in w)
        run.ob("R-WAKE", HID + ".hasseb._send_raw#stale-wake-up-discarded",
               not bad,
               "the sender can wait on %s without having cleared it since "
               "it started: a wake-up left over from before this command "
               "(the 'fail' of a disconnect at idle, a late answer) is "
               "taken for this command's answer" % EVH, where(mod, n_))
    # bus watch task cancelled and state reset for the next handshake
    body = " ".join(unparse(s) for s in sfn.body)
    run.ob("R-WAKE", HID + ".tridonic._shutdown_device#handshake-reset",
           any(isinstance(c_, ast.Call) and isinstance(
               c_.func, ast.Attribute) and c_.func.attr == "cancel" and
               astq.canon(sfn, c_.func.value) == "self._bus_watch_task"
               for c_ in ast.walk(sfn)) and
           _unconditional(sfn, ["self.firmware_version = None",
                                "self.serial = None"]),
           "handshake state (firmware_version, serial) must be reset "
           "unconditionally so that the handshake is repeated after "
           "reconnection", where(mod, sfn))
    # connected cleared
    do, dfn = _fn(world, HID + ".hid", "disconnect")
    run.ob("R-WAKE", HID + ".hid.disconnect#clears-connected",
           _unconditional(dfn, ["self.connected.clear()", "self._f = None",
                                "self.connection_status_callback._invoke("
                                "'disconnected')"]),
           "disconnect must clear `connected`, forget the fd and report "
           "'disconnected' on every path", where(mod, dfn))


def _unconditional(fn, texts):
    """Each text is an effect (a call statement or an assignment, locals
    that alias an attribute written out) that every normal path through fn
    performs: must-analysis on the CFG, so the order of the statements and
    the nesting of unrelated conditionals do not matter."""
    from ..cfg import forward, explicit_raise_only
    from .. import astq
    f2 = astq.propagate(fn)
    cfg = CFG(f2, may_raise=explicit_raise_only, name=fn.name)

    def transfer(node, st):
        if node.kind == "stmt" and isinstance(node.ast, ast.Expr):
            return st | {unparse(node.ast, 300)}
        if node.kind == "stmt" and isinstance(node.ast, ast.Assign):
            # `a = b = v` and `a, b = v, w` are one effect per target
            out = set()
            for t in node.ast.targets:
                if isinstance(t, ast.Tuple) and isinstance(
                        node.ast.value, ast.Tuple) and len(t.elts) == len(
                            node.ast.value.elts):
                    out |= {"%s = %s" % (unparse(a), unparse(b)) for a, b
                            in zip(t.elts, node.ast.value.elts)}
                else:
                    out.add("%s = %s" % (unparse(t), unparse(
                        node.ast.value, 300)))
            return st | out
        return st
    IN = forward(cfg, transfer, must=True)
    done = IN.get(cfg.exit.id, frozenset())
    return all(t in done for t in texts)


def _check_wrfail(run, repo, world, mod):
    run.rule("R-WRFAIL", "wire writes of send paths: except OSError -> "
             "disconnect(reconnect=True) -> raise CommunicationError")
    n = 0
    for cq, name in ((HID + ".tridonic", "_send_raw"),
                     (HID + ".tridonic", "_power_supply"),
                     (HID + ".hasseb", "_send_raw")):
        o, f2 = _fn(world, cq, name)
        for c in call_sites(f2):
            if not is_wire_write(c):
                continue
            n += 1
            tr = None
            p = getattr(c, "_parent", None)
            child = c
            while p is not None and p is not f2:
                if isinstance(p, ast.Try) and any(
                        child is s or child in ast.walk(s) for s in p.body):
                    tr = p
                    break
                child = p
                p = getattr(p, "_parent", None)
            ok = False
            if tr is not None:
                for h in tr.handlers:
                    if h.type is not None and unparse(h.type) == "OSError":
                        bt = [unparse(s) for s in h.body]
                        ok = "self.disconnect(reconnect=True)" in bt and any(
                            isinstance(s, ast.Raise) and unparse(
                                s.exc).startswith("CommunicationError")
                            for s in h.body)
            run.ob("R-WRFAIL", "%s.%s#os.write" % (cq, name), ok,
                   "a failing write (device unplugged) is not turned into "
                   "disconnect(reconnect=True) + CommunicationError: the raw "
                   "OSError escapes, no reconnection is scheduled and "
                   "exceptions=False callers are not retried",
                   where(mod, c),
                   sample={"rule": "R-WRFAIL", "site": "%s.%s" % (cq, name)})
    run.floor("send-path wire writes in hid.py", n, 3)
    o, rfn = _fn(world, HID + ".hid", "_reader")
    t = ast.unparse(rfn)
    hs = [unparse(h.type) for x in ast.walk(rfn) if isinstance(x, ast.Try)
          for h in x.handlers if h.type is not None]
    # a read error (handler) or end of file (empty read) leads to
    # disconnect(reconnect=True): the handler either disconnects itself or
    # makes `data` empty, and an emptiness test of `data` disconnects
    okr = "OSError" in hs
    empt = False
    for x in ast.walk(rfn):
        if isinstance(x, ast.If) and unparse(x.test) in (
                "len(data) == 0", "not data", "data == b''",
                "not len(data)", "data is None or len(data) == 0") and any(
                    unparse(s_) == "self.disconnect(reconnect=True)"
                    for s_ in x.body):
            empt = True
    hand = False
    for x in ast.walk(rfn):
        if isinstance(x, ast.Try):
            for h in x.handlers:
                if h.type is not None and unparse(h.type) == "OSError":
                    hb = [unparse(s_) for s_ in h.body]
                    if "self.disconnect(reconnect=True)" in hb or any(
                            b_ in ("data = b''", "data = None",
                                   "data = bytes()") for b_ in hb):
                        hand = True
    run.ob("R-WRFAIL", HID + ".hid._reader", okr and empt and hand,
           "a read error or end of file must disconnect with reconnect "
           "(OSError handler: %s, empty-read test: %s)" % (hand, empt),
           where(mod, rfn))


def _check_retry(run, repo, world, mod):
    run.rule("R-RETRY", "send/power_supply swallow only CommunicationError, "
             "only when exceptions is false, inside the retry loop")
    from .. import paths
    for name in ("send", "power_supply"):
        o, f2 = _fn(world, HID + ".hid", name)
        Q = HID + ".hid." + name
        tries = []
        for x in ast.walk(f2):
            if isinstance(x, ast.Try) and x.handlers and any(
                    isinstance(c, ast.Call) and unparse(c.func) in (
                        "self._send_raw", "self._power_supply")
                    for b in x.body for c in ast.walk(b)):
                tries.append(x)
        ok = bool(tries)
        why = "" if tries else "no try/except around the transmission"
        for t in tries:
            types = [unparse(h.type) if h.type is not None else "<bare>"
                     for h in t.handlers]
            if types != ["CommunicationError"]:
                ok, why = False, "handlers %s" % types
                continue
            # handler: re-raise exactly when `exceptions` is true
            from ..inline import acopy as _acp

            class _Cont(ast.NodeTransformer):
                # `continue` in the handler goes round the retry loop again:
                # for the handler's own paths it is "swallowed"
                def visit_Continue(self, n):
                    return ast.copy_location(ast.Return(
                        ast.Name("<continue>", ast.Load())), n)
            hf = ast.FunctionDef(name="handler", args=f2.args,
                                 body=[_Cont().visit(_acp(x))
                                       for x in t.handlers[0].body],
                                 decorator_list=[], returns=None,
                                 type_comment=None, type_params=[])
            ast.fix_missing_locations(hf)
            ps = paths.summaries(hf)
            from .. import astq
            DEFAULTED = ("self.exceptions_on_send if exceptions is None "
                         "else exceptions",
                         "exceptions if exceptions is not None else "
                         "self.exceptions_on_send")

            def flag(c):
                # a local holding the defaulted flag reads as the flag
                t_ = astq.canon(f2, c)
                return "exceptions" if t_ in DEFAULTED else unparse(c)
            for p_ in ps:
                conds = {(flag(c), b) for (c, b) in p_.conds}
                if p_.kind == "raise" and p_.expr is None:
                    if conds != {("exceptions", True)}:
                        ok, why = False, "re-raises when %s" % sorted(conds)
                elif p_.kind == "fall" or (
                        p_.kind == "return" and isinstance(
                            p_.expr, ast.Name) and
                        p_.expr.id == "<continue>"):
                    if conds != {("exceptions", False)}:
                        ok, why = False, "swallows when %s" % sorted(conds)
                else:
                    ok, why = False, "handler does %r" % p_
            # retried: the try statement sits inside a loop
            inloop = False
            for w in ast.walk(f2):
                if isinstance(w, ast.While) and any(t is y for y in
                                                    ast.walk(w)):
                    inloop = True
            if not inloop:
                ok, why = False, "not inside a retry loop"
        run.ob("R-RETRY", Q, ok,
               "the transmission must be retried in a loop whose only "
               "handler is `except CommunicationError`, re-raising exactly "
               "when `exceptions` is true: %s" % why, where(mod, f2))
        # `exceptions` defaults to the driver attribute
        okd = False
        for n_ in ast.walk(f2):
            if isinstance(n_, ast.If) and unparse(n_.test) in (
                    "exceptions is None", "exceptions == None") and any(
                        unparse(b_) == "exceptions = self.exceptions_on_send"
                        for b_ in n_.body):
                okd = True
            if isinstance(n_, ast.Assign) and isinstance(
                    n_.targets[0], ast.Name) and isinstance(
                        n_.value, ast.IfExp):
                t_, a_, b_ = (unparse(n_.value.test), unparse(n_.value.body),
                              unparse(n_.value.orelse))
                if (t_ == "exceptions is None" and a_ ==
                        "self.exceptions_on_send" and b_ == "exceptions") or (
                        t_ == "exceptions is not None" and a_ == "exceptions"
                        and b_ == "self.exceptions_on_send"):
                    okd = True
        run.ob("R-RETRY", Q + "#default", okd,
               "exceptions=None must fall back to self.exceptions_on_send",
               where(mod, f2), trivial=True)
    # waiting for the connection before each attempt
    for cq in (HID + ".tridonic", HID + ".hasseb"):
        o, f2 = _fn(world, cq, "_send_raw")
        cfg = CFG(f2, may_raise=suspension_may_raise, name=cq + "._send_raw")
        first_await = None
        for n in cfg.reachable:
            if n.kind == "stmt" and n.ast is not None and any(
                    isinstance(x, ast.Await) for x in _walk_no_nested(n.ast)):
                first_await = n
                break
        run.ob("R-RETRY", cq + "._send_raw#awaits-connected",
               first_await is not None and unparse(first_await.ast) ==
               "await self.connected.wait()",
               "a (re)try must wait for the connection before writing",
               where(mod, f2))


def _check_reconnect(run, repo, world, mod):
    run.rule("R-RECONNECT", "failed open schedules _reconnect; success "
             "resets the attempt counter and repeats the handshake")
    from .. import astq
    o, cfn = _fn(world, HID + ".hid", "connect")

    def arg_is_call(c, name):
        return any(isinstance(a, ast.Call) and unparse(a.func) == name
                   for a in c.args)
    sched = [c for c in astq.calls_to(cfn, "create_task")
             if arg_is_call(c, "self._reconnect")]
    reset = [v for v in astq.stores(cfn).get("self._reconnect_count", [])
             if isinstance(v, ast.Constant) and v.value == 0]
    hand = astq.calls_to(cfn, "_initialise_device")
    told = [c for c in astq.calls_to(cfn, "_invoke") if c.args and
            isinstance(c.args[0], ast.Constant) and
            c.args[0].value == "connected"]
    run.ob("R-RECONNECT", HID + ".hid.connect",
           bool(sched) and bool(reset) and bool(hand) and bool(told),
           "connect() must schedule a reconnection attempt on failure and, "
           "on success, reset the counter, start the handshake and report "
           "'connected' (found: schedule=%d reset=%d handshake=%d "
           "report=%d)" % (len(sched), len(reset), len(hand), len(told)),
           where(mod, cfn))
    # whatever errno the open fails with (ENOENT while the node is gone,
    # EACCES before udev has set the permissions, ENODEV / EIO while the
    # device resets), the failure is caught and a new attempt scheduled: the
    # handler around os.open() covers OSError, and from it every path to
    # the end of connect() passes the scheduling call
    from ..cfg import CFG, explicit_raise_only
    parent = {}
    for n in ast.walk(cfn):
        for ch in ast.iter_child_nodes(n):
            if not isinstance(ch, ast.expr_context):
                parent[id(ch)] = n
    opens = [c for c in ast.walk(cfn) if isinstance(c, ast.Call) and
             unparse(c.func) in ("os.open", "open")]
    if not opens:
        raise AnalysisError("hid.connect: the call that opens the device is "
                            "not found")
    COVER = {"OSError", "IOError", "EnvironmentError", "Exception",
             "BaseException"}
    def open_may_raise(node):
        return explicit_raise_only(node) or (
            node.ast is not None and node.kind in ("stmt", "test") and any(
                x is c for c in opens for x in ast.walk(node.ast)))
    ccfg = CFG(cfn, may_raise=open_may_raise, name="hid.connect")
    sched_ids = {n.id for n in ccfg.reachable if n.ast is not None and
                 n.kind in ("stmt", "test") and any(
                     c is x for c in sched for x in ast.walk(n.ast))}
    # what is opened is looked up on this attempt: the node a gateway comes
    # back under (hidraw3 -> hidraw4, the shipped udev rule globs for it) is
    # found only if the pattern is expanded again - nothing the object
    # remembers from an earlier attempt may name the file
    remembered = set()
    grew = True
    local_src = {}
    for n in ast.walk(cfn):
        if isinstance(n, ast.Assign):
            for t_ in n.targets:
                for x in ast.walk(t_):
                    if isinstance(x, ast.Name) and isinstance(
                            x.ctx, ast.Store):
                        local_src.setdefault(x.id, []).append(n.value)
        elif isinstance(n, (ast.For, ast.comprehension)):
            for x in ast.walk(n.target):
                if isinstance(x, ast.Name):
                    local_src.setdefault(x.id, []).append(n.iter)
    for oc in opens:
        if not oc.args:
            continue
        seen_n, todo = set(), [oc.args[0]]
        while todo:
            e_ = todo.pop()
            for x in ast.walk(e_):
                if isinstance(x, ast.Attribute) and isinstance(
                        x.value, ast.Name) and x.value.id == "self" and \
                        x.attr not in ("_path", "_glob"):
                    remembered.add("self." + x.attr)
                if isinstance(x, ast.Name) and x.id not in seen_n:
                    seen_n.add(x.id)
                    todo += local_src.get(x.id, [])
    run.ob("R-RECONNECT", HID + ".hid.connect#path-looked-up-per-attempt",
           not remembered,
           "the file connect() opens is named by %s, which the object keeps "
           "from an earlier attempt: a gateway that comes back under another "
           "device node is never found again" % sorted(remembered),
           where(mod, cfn))
    for oc in opens:
        p_, child = parent.get(id(oc)), oc
        handlers = None
        while p_ is not None:
            if isinstance(p_, ast.Try) and any(
                    child is b_ for b_ in p_.body):
                hs = [h for h in p_.handlers if h.type is None or (
                    {unparse(t) for t in (
                        h.type.elts if isinstance(h.type, ast.Tuple)
                        else [h.type])} & COVER)]
                if hs:
                    handlers = hs
                    break
            child, p_ = p_, parent.get(id(p_))
        run.ob("R-RECONNECT", HID + ".hid.connect#open-failure-caught",
               handlers is not None,
               "os.open() can fail with any OSError (EACCES, ENODEV, EIO, "
               "not only a missing node); no handler around it covers "
               "OSError, so such a failure escapes connect(), ends the "
               "reconnect task and nobody ever tries again",
               where(mod, oc))
        for h in handlers or []:
            starts = [n for n in ccfg.reachable if n.kind == "except" and
                      n.ast is h]
            # path-sensitive: the handler's `self._f = None` decides the
            # `if not self._f` that follows
            from ..cfg import forward_worlds
            from ..seq import cond_edge_transfer, kill_conds_on_assign
            cet_ = cond_edge_transfer()

            def tr_(node, w):
                w = kill_conds_on_assign(node, w)
                a_ = node.ast
                if node.kind == "except" and a_ is h:
                    w = w | {("in-handler",)}
                if node.id in sched_ids:
                    w = w | {("scheduled",)}
                if node.kind == "stmt" and isinstance(a_, ast.Assign) and \
                        len(a_.targets) == 1 and isinstance(
                            a_.targets[0], ast.Attribute):
                    t_ = unparse(a_.targets[0])
                    w = frozenset(f for f in w if not (
                        f[0] == "cond" and t_ in f[1]))
                    if isinstance(a_.value, ast.Constant):
                        w = w | {("cond", t_, bool(a_.value.value)),
                                 ("cond", "%s is None" % t_,
                                  a_.value.value is None)}
                return w
            Wc = forward_worlds(ccfg, tr_, cet_)
            bad_w = [w for w in Wc.at(ccfg.exit)
                     if ("in-handler",) in w and ("scheduled",) not in w]
            escaped = bool(bad_w)
            if escaped:
                run.note("connect(): unscheduled path %s" % " -> ".join(
                    "L%s" % x.lineno for x in Wc.trace(ccfg.exit, bad_w[0])
                    if x.lineno))
            run.ob("R-RECONNECT", HID + ".hid.connect#failure-schedules",
                   bool(starts) and not escaped,
                   "after a failed open a path leaves connect() without "
                   "scheduling _reconnect()", where(mod, h))
    o, dfn = _fn(world, HID + ".hid", "disconnect")
    rp = dfn.args.args[1].arg if len(dfn.args.args) > 1 else "reconnect"
    guarded = False
    for n in ast.walk(dfn):
        if isinstance(n, ast.If) and unparse(n.test) == rp:
            guarded = guarded or any(
                isinstance(c, ast.Call) and unparse(c.func) ==
                "self._reconnect" for x in n.body for c in ast.walk(x))
    cancels = [c for c in astq.calls_to(dfn, "cancel")
               if unparse(c.func.value) == "self._reconnect_task"]
    run.ob("R-RECONNECT", HID + ".hid.disconnect#schedules",
           guarded and bool(cancels),
           "disconnect(reconnect=True) must schedule _reconnect and cancel a "
           "pending one", where(mod, dfn))


def _check_timeout(run, repo, world):
    # the one unbounded wait of the send path is on rx_idle ("no frame is
    # being received"): the receiver's state machine must not clear that
    # event between the bytes of a frame, or a gateway that goes silent
    # mid-frame blocks every later send for ever with the lock held
    mod = repo.mod(SER)
    for pq in (SER + ".DriverLubaRs232.LubaProtocol",
               SER + ".DriverSCIRS232.SCIRS232Protocol"):
        pc = world.cls(pq)
        unb = [n for (nm_, (k_, f_)) in pc.methods.items()
               for n in ast.walk(f_) if isinstance(n, ast.Await) and
               unparse(n.value) == "self.rx_idle.wait()"]
        if not unb:
            continue
        # the state for which the rx_state setter sets the event
        start = None
        for (nm_, (k_, f_)) in pc.methods.items():
            pass
        for n in ast.walk(pc.node):
            if not (isinstance(n, ast.If) and isinstance(
                    n.test, ast.Compare) and len(n.test.ops) == 1):
                continue
            in_body = any(unparse(x) == "self.rx_idle.set()"
                          for b in n.body for x in ast.walk(b))
            in_else = any(unparse(x) == "self.rx_idle.set()"
                          for b in n.orelse for x in ast.walk(b))
            eq = isinstance(n.test.ops[0], (ast.Eq, ast.Is))
            ne = isinstance(n.test.ops[0], (ast.NotEq, ast.IsNot))
            # the event is set in the arm where the state IS the idle one,
            # whichever way round the test is written
            if (in_body and eq and not in_else) or (
                    in_else and ne and not in_body):
                start = unparse(n.test.comparators[0])
        clears = []
        for (nm_, (k_, f_)) in pc.methods.items():
            for n in ast.walk(f_):
                if isinstance(n, ast.Assign) and any(
                        unparse(t_) == "self.rx_state" for t_ in n.targets) \
                        and unparse(n.value) != start:
                    clears.append("%s: %s" % (nm_, unparse(n)))
                if isinstance(n, ast.Call) and unparse(
                        n.func) == "self.rx_idle.clear" and \
                        not nm_.startswith("rx_state"):
                    clears.append("%s: %s" % (nm_, unparse(n)))
        run.rule("R-TIMEOUT", "")
        run.ob("R-TIMEOUT", pq + "#rx_idle-never-cleared-mid-frame",
               start is not None and not clears,
               "send_dali_command waits on rx_idle without a timeout, and "
               "the receiver clears it while a frame is in progress (%s): "
               "a frame cut short by a silent gateway is never finished "
               "and the wait never ends" % "; ".join(clears[:3]),
               where(mod, pc.node))
    run.rule("R-TIMEOUT", "serial.py: every await on a gateway-fed queue "
             "inside a lock region is bounded by asyncio.wait_for with a "
             "class timeout constant")
    mod = repo.mod(SER)
    EXEMPT = {
        "self.rx_idle.wait()": "set by the receiver state machine on every "
        "frame boundary, not by the gateway's good will",
        "self._connected.wait()": "connection establishment, outside any "
        "lock region",
        "self._protocol.connected.wait()": "wrapped in wait_for by connect()",
        "self._protocol._connected.wait()": "wrapped in wait_for by "
        "connect()",
    }
    n = 0
    for (c, name, kind, f2) in methods_of(world, SER):
        if not isinstance(f2, ast.AsyncFunctionDef):
            continue
        for a in ast.walk(f2):
            if not isinstance(a, ast.Await):
                continue
            v = a.value
            t = unparse(v)
            is_queue_get = isinstance(v, ast.Call) and isinstance(
                v.func, ast.Attribute) and v.func.attr == "get" and \
                "_queue_" in unparse(v.func.value)
            is_wait_for = isinstance(v, ast.Call) and unparse(v.func) == \
                "asyncio.wait_for"
            Q = "%s.%s" % (c.qname, name)
            if is_queue_get:
                # allowed only as the body of a thin helper that callers wrap
                callers_wrap = name in ("wait_dali_raw_response",)
                n += 1
                run.ob("R-TIMEOUT", "%s#%s" % (Q, t), callers_wrap,
                       "unbounded await on a gateway-fed queue: a gateway "
                       "that stops answering hangs the caller with the lock "
                       "held", where(mod, a))
            is_helper = isinstance(v, ast.Call) and isinstance(
                v.func, ast.Attribute) and v.func.attr in (
                    "wait_dali_raw_response",)
            if is_helper:
                # the thin helper awaits the queue without a bound: every
                # caller has to wrap it in wait_for
                n += 1
                run.ob("R-TIMEOUT", "%s#%s" % (Q, t), False,
                       "`%s` awaits a gateway-fed queue without a bound: it "
                       "must be the argument of asyncio.wait_for(...), or a "
                       "gateway that stops answering hangs the caller with "
                       "the lock held" % t, where(mod, a))
            if is_wait_for:
                inner = unparse(v.args[0]) if v.args else ""
                if "_queue_" in inner or "wait_dali_raw_response" in inner:
                    n += 1
                    to = None
                    for k in v.keywords:
                        if k.arg == "timeout":
                            to = unparse(k.value)
                    if to is None and len(v.args) > 1:
                        to = unparse(v.args[1])
                    ok = to is not None and to.split(".")[-1] in (
                        "timeout_rx", "timeout_tx_confirm", "timeout_connect")
                    run.ob("R-TIMEOUT", "%s#wait_for(%s)" % (Q, inner[:40]),
                           ok, "wait_for timeout is %s, expected a class "
                           "timeout constant" % to, where(mod, a),
                           sample={"rule": "R-TIMEOUT", "await": inner[:60],
                                   "timeout": to})
    run.floor("bounded/unbounded queue awaits in serial.py", n, 8)
    # TimeoutError of the answer wait means "no answer"; of the confirmation
    # wait it propagates (send fails) - and the lock is released (C15)
    for cq in (SER + ".DriverLubaRs232", SER + ".DriverSCIRS232"):
        o, f2 = _fn(world, cq, "send")
        hs = [(unparse(h.type), [unparse(s) for s in h.body]) for x in
              ast.walk(f2) if isinstance(x, ast.Try) for h in x.handlers
              if h.type is not None]
        # the handler ends the wait (break, or return of the no-answer
        # response) and does not raise
        ok = False
        for x in ast.walk(f2):
            if not isinstance(x, ast.Try):
                continue
            for h in x.handlers:
                if h.type is None or unparse(h.type).split(".")[-1] != \
                        "TimeoutError":
                    continue
                kinds = {type(y) for b_ in h.body for y in ast.walk(b_)}
                if (ast.Break in kinds or ast.Return in kinds) and \
                        ast.Raise not in kinds and any(
                            "_queue_rx_raw_dali" in unparse(b_, 400) or
                            "wait_dali_raw_response" in unparse(b_, 400)
                            for b_ in x.body):
                    ok = True
        run.ob("R-TIMEOUT", cq + ".send#no-answer", ok,
               "an answer timeout must end the wait (no answer), not hang or "
               "raise", where(mod, f2))
        # exactly the answer wait is inside that handler
        tries = [x for x in ast.walk(f2) if isinstance(x, ast.Try) and any(
            h.type is not None and unparse(h.type) ==
            "asyncio.exceptions.TimeoutError" for h in x.handlers)]
        okc = all(not any("send_dali_command" in unparse(s) for s in x.body)
                  for x in tries)
        run.ob("R-TIMEOUT", cq + ".send#confirm-timeout-propagates", okc,
               "a missing transmit confirmation must make send fail, not be "
               "swallowed as 'no answer'", where(mod, f2))
