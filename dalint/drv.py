"""Helpers for the asyncio driver analyses (C15-C17, C20): method call
resolution inside driver class families, lock-region facts on CFGs, await and
write-site discovery."""
import ast

from .core import AnalysisError, unparse
from .cfg import CFG, suspension_may_raise, forward_worlds, _walk_no_nested
from .front import ClassInfo
from .seq import cond_edge_transfer, kill_conds_on_assign

HID = "dali.driver.hid"
SER = "dali.driver.serial"


# method names of hid.py / serial.py that the rules know (pinned tree): they
# are analysed as units of the call graph.  Any other method reached through
# self. (a helper introduced by a refactoring) is inlined into its callers
# before the rules look at them.
DRIVER_PRIMITIVES = (
    "__init__", "_bus_watch", "_cmd", "_command_mode", "_handle_read",
    "_hex", "_initialise_device", "_invoke", "_power_supply", "_reader",
    "_reconnect", "_send_raw", "_seqnum", "_shutdown_device", "connect",
    "disconnect", "power_supply", "register", "run_sequence", "send",
    "unregister", "__del__", "__hash__", "__repr__", "_insert_checksum",
    "_process_byte", "_process_dali_frame", "_process_error",
    "_process_luba_event", "_process_luba_response_dali_frame_to_tx",
    "_process_luba_response_device_info", "_process_luba_response_settings",
    "_process_system_message", "add_handler", "connected", "connection_lost",
    "connection_made", "data_received", "del_handler", "dev_inst_map",
    "device_info", "distribute", "drivers_map", "is_connected", "is_parent",
    "new_dali_rx_queue", "queue_rx_dali", "reset", "reset_dali_response",
    "rx_state", "send_dali_command", "send_device_info_query",
    "send_device_settings", "wait_connected", "wait_dali_raw_response")


def expand_method(world, cls, fn, aliases=True):
    """fn with calls of non-primitive helpers of the same class inlined."""
    from .normal import normalise
    return normalise(fn, world, cls.mod, cls, primitives=DRIVER_PRIMITIVES,
                     aliases=aliases)


def methods_of(world, modname):
    """[(ClassInfo, name, kind, fn)] for every method defined in modname."""
    out = []
    for c in world.class_order:
        if c.mod != modname:
            continue
        for name, (kind, fn) in c.methods.items():
            out.append((c, name, kind, fn))
    return out


def family(world, cls):
    """cls, its in-repo bases and all its subclasses."""
    fam = [k for k in cls.mro if isinstance(k, ClassInfo)]
    for c in world.class_order:
        if cls in c.mro and c not in fam:
            fam.append(c)
    return fam


def resolve_self_call(world, cls, call):
    """Candidates for `self.m(...)`, `self._protocol.m(...)`,
    `super().m(...)` made inside a method of cls.  Returns [(ClassInfo,
    fn)]."""
    f = call.func
    if not isinstance(f, ast.Attribute):
        return []
    name = f.attr
    recv = f.value
    out = []
    if isinstance(recv, ast.Name) and recv.id in ("self", "cls"):
        for k in family(world, cls):
            if name in k.methods:
                out.append((k, k.methods[name][1]))
    elif isinstance(recv, ast.Call) and isinstance(
            recv.func, ast.Name) and recv.func.id == "super":
        r = cls.lookup_after(name, cls)
        if r is not None and r[1] not in ("attr", "class"):
            out.append((r[0], r[2]))
    elif isinstance(recv, ast.Attribute) and isinstance(
            recv.value, ast.Name) and recv.value.id == "self":
        # self._protocol.m(): nested protocol class of the same driver
        holder = recv.attr
        for k in family(world, cls):
            for nc in k.nested.values():
                if name in nc.methods and holder in ("_protocol",):
                    out.append((nc, nc.methods[name][1]))
    return out


def call_sites(fn):
    """All Call nodes in fn (not entering nested defs)."""
    return [n for n in _walk_no_nested(fn) if isinstance(n, ast.Call)]


def is_wire_write(call):
    """os.write(self._f, ...) / self.transport.write(...)"""
    t = unparse(call.func)
    if t == "os.write" and call.args and unparse(call.args[0]) == "self._f":
        return "os.write"
    if t == "self.transport.write":
        return "transport.write"
    return None


def lock_name(expr):
    """'transaction_lock' for self.transaction_lock etc."""
    if isinstance(expr, ast.Attribute) and isinstance(
            expr.value, ast.Name) and expr.value.id == "self":
        return expr.attr
    return None


def lock_events(node):
    """Lock events of a CFG node: list of (kind, lockname) with kind in
    acquire/release/enter/exit."""
    out = []
    a = node.ast
    if a is None:
        return out
    if node.kind == "with_enter":
        for it in a.items:
            ln = lock_name(it.context_expr)
            if ln:
                out.append(("enter", ln))
        return out
    if node.kind == "with_exit":
        for it in a.items:
            ln = lock_name(it.context_expr)
            if ln:
                out.append(("exit", ln))
        return out
    if node.kind != "stmt":
        return out
    for c in _walk_no_nested(a):
        if isinstance(c, ast.Call) and isinstance(c.func, ast.Attribute) \
                and c.func.attr in ("acquire", "release"):
            ln = lock_name(c.func.value)
            if ln:
                out.append((c.func.attr, ln))
    return out


def lock_worlds(cfg, extra_transfer=None, extra_edge=None):
    """Path-sensitive analysis of which locks are held.  Facts:
    ('held', lock).  acquire() takes effect on the non-exceptional edge only
    (a cancelled acquire does not hold the lock); `async with` holds the
    lock between with_enter and with_exit."""
    cet = cond_edge_transfer()

    def transfer(node, st):
        st = kill_conds_on_assign(node, st)
        for (k, ln) in lock_events(node):
            if k == "release":
                if ("held", ln) not in st:
                    st = st | {("bad-release", ln)}
                st = st - {("held", ln)}
            elif k == "exit":
                st = st - {("held", ln)}
        if extra_transfer is not None:
            st = extra_transfer(node, st)
        return st

    def edge(src, label, dst, st):
        st = cet(src, label, dst, st)
        if st is None:
            return None
        if label != "exc":
            for (k, ln) in lock_events(src):
                if k in ("acquire", "enter"):
                    st = st | {("held", ln)}
        if extra_edge is not None:
            st = extra_edge(src, label, dst, st)
        return st
    return forward_worlds(cfg, transfer, edge)


def awaits_in(node_ast):
    return [n for n in _walk_no_nested(node_ast) if isinstance(n, ast.Await)]
