"""Abstract interpreter for the command / address / event codecs.

Domain (DESIGN.md section 2.4):
  * a frame of static width n is a vector of n lanes; a lane is 0, 1,
    ('in', j) (bit j of the decoder's input frame), ('p', name, k) (bit k of
    constructor parameter `name`) or 'T' (unknown);
  * integers are lane vectors (LSB first) or Python ints; validated
    parameters start as intervals and become lanes once a guard bounds them;
  * a path carries a *cube* (partial assignment of symbolic lanes and of the
    symbolic device type / instance type) plus negated cubes kept as
    residuals; comparisons, bit tests and registry look-ups with lane-valued
    keys fork the path (trace partitioning), one case per registry key plus
    the miss case;
  * objects live in a per-path heap of numbered cells.

The interpreted subset is the one the codec modules use (assignments,
if/elif/else, for over folded sequences, return, raise, calls to resolved
repository functions, properties, super(), classmethods, isinstance/hasattr/
len, IfExp, keyword arguments).  Anything else raises AnalysisError (exit 2).
The decode registries are the ones produced by interpreting the registration
code (regexec), not a mirror."""
import ast
import copy

from .core import AnalysisError, unparse
from .front import ClassInfo
from .fold import Folder, UNKNOWN, EnumMember, ClassRef as FClassRef
from .regexec import ClsObj

T = "T"


class Unsupported(AnalysisError):
    pass


class AInt:
    __slots__ = ("lanes",)

    def __init__(self, lanes):
        self.lanes = tuple(lanes)

    def __repr__(self):
        return "AInt(%s)" % ",".join(_lane_str(l) for l in
                                     reversed(self.lanes))


def _lane_str(l):
    if l in (0, 1):
        return str(l)
    if l == T:
        return "T"
    if l[0] == "in":
        return "i%d" % l[1]
    if l[0] == "p":
        return "%s.%d" % (l[1], l[2])
    return str(l)


class IvInt:
    """An unvalidated integer parameter known only by an interval."""
    __slots__ = ("name", "lo", "hi")

    def __init__(self, name, lo=None, hi=None):
        self.name, self.lo, self.hi = name, lo, hi

    def __repr__(self):
        return "Iv(%s:[%s,%s])" % (self.name, self.lo, self.hi)

    def bounded(self):
        return self.lo is not None and self.hi is not None and self.lo >= 0


class NonInt:
    """A constructor argument of a wrong (non-integer) type."""

    def __repr__(self):
        return "NonInt"


class ABool:
    __slots__ = ("lane", "neg")

    def __init__(self, lane, neg=False):
        self.lane, self.neg = lane, neg

    def __repr__(self):
        return "ABool(%s%s)" % ("!" if self.neg else "", _lane_str(self.lane))


class Obj:
    def __init__(self, cls):
        self.cls = cls
        self.f = {}
        self.nt = None

    def __repr__(self):
        return "<%s %s>" % (self.cls.name if self.cls else self.nt, self.f)


class AFrame:
    def __init__(self, kind, w, lanes):
        self.kind, self.w, self.lanes = kind, w, list(lanes)

    def __repr__(self):
        return "%s(%d,%s)" % (self.kind, self.w, " ".join(
            _lane_str(l) for l in reversed(self.lanes)))


class ClsRef:
    __slots__ = ("c",)

    def __init__(self, c):
        self.c = c

    def __repr__(self):
        return "ClsRef(%s)" % self.c.name

    def __eq__(self, o):
        return isinstance(o, ClsRef) and o.c is self.c

    def __hash__(self):
        return hash(self.c.qname)

    def __deepcopy__(self, memo):
        return self


class Mod:
    def __init__(self, m):
        self.m = m

    def __deepcopy__(self, memo):
        return self


class Sym:
    """Symbolic small integer (device type, mapped instance type)."""

    def __init__(self, n):
        self.n = n

    def __repr__(self):
        return "Sym(%s)" % self.n

    def __deepcopy__(self, memo):
        return self


class Opaque:
    def __init__(self, d=""):
        self.d = d

    def __repr__(self):
        return "Opaque(%s)" % self.d


class Bound:
    def __init__(self, self_, owner, fn, kind):
        self.self_, self.owner, self.fn, self.kind = self_, owner, fn, kind

    def __deepcopy__(self, memo):
        return Bound(copy.deepcopy(self.self_, memo), self.owner, self.fn,
                     self.kind)


class NeedSplit(Exception):
    """Arithmetic on a few free lanes: the caller enumerates their values."""

    def __init__(self, lanes):
        self.lanes = lanes


class Registry:
    def __init__(self, d, name):
        self.d, self.name = d, name

    def __deepcopy__(self, memo):
        return self


class Raise(Exception):
    def __init__(self, exc, node=None):
        self.exc, self.node = exc, node

    def __repr__(self):
        return "Raise(%s)" % self.exc

    def __deepcopy__(self, memo):
        return self


class Ref:
    __slots__ = ("i",)

    def __init__(self, i):
        self.i = i

    def __repr__(self):
        return "Ref(%d)" % self.i

    def __deepcopy__(self, memo):
        return self


class State:
    def __init__(self):
        self.cube = {}
        self.neg = []
        self.heap = {}
        self.n = 0
        self.notes = []
        self.ivref = {}      # parameter name -> latest refined IvInt

    def fork(self):
        s = State()
        s.ivref = dict(self.ivref)
        s.cube = dict(self.cube)
        s.neg = list(self.neg)
        s.n = self.n
        s.notes = list(self.notes)
        s.heap = {k: _copy_cell(v) for k, v in self.heap.items()}
        return s

    def new(self, o):
        self.n += 1
        self.heap[self.n] = o
        return Ref(self.n)

    def d(self, v):
        return self.heap[v.i] if isinstance(v, Ref) else v


def _copy_cell(v):
    if isinstance(v, Obj):
        o = Obj(v.cls)
        o.f = dict(v.f)
        o.nt = v.nt
        return o
    if isinstance(v, AFrame):
        return AFrame(v.kind, v.w, v.lanes)
    return v


def norm(v):
    if isinstance(v, AInt):
        ls = list(v.lanes)
        while ls and ls[-1] == 0:
            ls.pop()
        if all(l in (0, 1) for l in ls):
            return sum(b << i for i, b in enumerate(ls))
        return AInt(ls)
    return v


def lanes_of(v, w=None):
    if isinstance(v, Sym):
        return [("sym", v.n, i) for i in range(w or 8)]
    if isinstance(v, bool):
        v = int(v)
    if isinstance(v, int):
        if v < 0:
            raise Unsupported("negative integer in a bit operation")
        n = max(v.bit_length(), w or 0)
        return [(v >> i) & 1 for i in range(n)]
    if isinstance(v, ABool):
        if v.neg:
            raise Unsupported("negated bool used as a lane")
        return [v.lane]
    if isinstance(v, AInt):
        ls = list(v.lanes)
        if w and len(ls) < w:
            ls += [0] * (w - len(ls))
        return ls
    if isinstance(v, IvInt):
        if v.bounded():
            n = max(v.hi.bit_length(), 1, w or 0)
            return [("p", v.name, i) if i < max(v.hi.bit_length(), 1) else 0
                    for i in range(n)]
        raise Raise("UNVALIDATED:%s" % v.name)
    if isinstance(v, NonInt):
        raise Raise("TypeError: non-int operand")
    raise Unsupported("lanes of %r" % (v,))


def assume(st, lane, val):
    if lane in (0, 1):
        return lane == val
    if lane == T:
        st.notes.append("assumption on an unknown lane")
        return True
    if lane in st.cube:
        return st.cube[lane] == val
    st.cube[lane] = val
    return feasible(st)


def feasible(st):
    for n in st.neg:
        if all(st.cube.get(k) == v for k, v in n.items()):
            return False
    return True


def satisfiable(st, limit=14):
    """Is there an assignment of the free lanes mentioned by the residual
    (negated) cubes that avoids all of them?  Exact for up to `limit` free
    two-valued lanes; symbolic small integers (device / instance type) have
    infinitely many other values and never exhaust."""
    if not feasible(st):
        return False
    live = []
    for n in st.neg:
        if any(k in st.cube and st.cube[k] != v for k, v in n.items()):
            continue        # already falsified
        live.append({k: v for k, v in n.items() if k not in st.cube})
    free = sorted({k for n in live for k in n}, key=repr)
    if not free:
        return not any(not n for n in live)
    if any(isinstance(k, tuple) and k[0] == "symv" for k in free):
        return True
    if len(free) > limit:
        return True
    for m in range(1 << len(free)):
        asg = {k: (m >> i) & 1 for i, k in enumerate(free)}
        if not any(all(asg[k] == v for k, v in n.items()) for n in live):
            return True
    return False


def lane_val(st, lane):
    if lane in (0, 1):
        return lane
    return st.cube.get(lane)


class Cmp:
    """Pending comparison: conjunction of lane == value pairs (or its
    negation)."""

    def __init__(self, pairs, neg=False):
        self.pairs, self.neg = pairs, neg

    def negate(self):
        if len(self.pairs) == 1 and self.pairs[0][1] in (0, 1) and not (
                isinstance(self.pairs[0][0], tuple) and
                self.pairs[0][0][0] == "symv"):
            # one lane: not (lane == v) is lane == 1 - v
            return Cmp([(self.pairs[0][0], 1 - self.pairs[0][1])], self.neg)
        return Cmp(self.pairs, not self.neg)

    def split(self, I, env, st):
        vals = [lane_val(st, l) for l, v in self.pairs]
        if all(x is not None for x in vals):
            res = all(x == v for x, (l, v) in zip(vals, self.pairs))
            yield res ^ self.neg, env, st
            return
        if any(x is not None and x != v
               for x, (l, v) in zip(vals, self.pairs)):
            yield False ^ self.neg, env, st
            return
        e2, s2 = I.forkenv(env, st)
        if all(assume(s2, l, v) for l, v in self.pairs):
            yield True ^ self.neg, e2, s2
        e3, s3 = I.forkenv(env, st)
        unknown = [(l, v) for (l, v), x in zip(self.pairs, vals)
                   if x is None]
        if len(unknown) == 1 and not (isinstance(unknown[0][0], tuple)
                                      and unknown[0][0][0] == "symv"):
            if assume(s3, unknown[0][0], 1 - unknown[0][1]):
                yield False ^ self.neg, e3, s3
            return
        s3.neg.append({l: v for l, v in self.pairs})
        if feasible(s3):
            yield False ^ self.neg, e3, s3


class Interp:
    def __init__(self, world, rx, folder=None, mapmode="nomap"):
        self.world = world
        self.rx = rx
        self.folder = folder or Folder(world)
        self.mapmode = mapmode
        self.stats = {"forks": 0, "calls": 0}
        self._reg_cache = {}
        self.depth = 0

    # -- registries (from the interpreted registration code) -----------------
    def registry(self, cls, name):
        """Dynamic class attribute set by registration code, converted to
        this interpreter's values; None if there is none."""
        for k in cls.mro:
            if not isinstance(k, ClassInfo):
                continue
            key = (k.qname, name)
            if key in self._reg_cache:
                return self._reg_cache[key]
            ko = self.rx.objs.get(k)
            if ko is not None and name in ko.ns:
                v = self._conv(ko.ns[name], k.qname + "." + name)
                self._reg_cache[key] = v
                return v
            if name in k.attrs or name in k.methods:
                return None
        return None

    def _conv(self, v, name):
        if isinstance(v, ClsObj):
            return ClsRef(v.info)
        if isinstance(v, dict):
            return Registry({self._convk(a): self._conv(b, name)
                             for a, b in v.items()}, name)
        if isinstance(v, list):
            return [self._conv(x, name) for x in v]
        if isinstance(v, (set, frozenset)):
            return frozenset(v)
        if isinstance(v, EnumMember):
            return v.value
        return v

    def _convf(self, v, name):
        """Folded module / class constants as interpreter values."""
        if isinstance(v, FClassRef):
            return ClsRef(v.cls)
        if isinstance(v, EnumMember):
            return v.value
        if isinstance(v, dict):
            return Registry({self._convk(a): self._convf(b, name)
                             for a, b in v.items()}, name)
        if isinstance(v, list):
            return [self._convf(x, name) for x in v]
        if isinstance(v, tuple):
            return tuple(self._convf(x, name) for x in v)
        return v

    def _convk(self, k):
        if isinstance(k, EnumMember):
            return k.value
        return k

    # -- calling ---------------------------------------------------------------
    def call_fn(self, fn, owner, args, kwargs, st, self_=None, kind="inst",
                mod=None):
        self.stats["calls"] += 1
        for d_ in getattr(fn, "decorator_list", ()):
            t_ = unparse(d_.func if isinstance(d_, ast.Call) else d_)
            if t_.split(".")[-1] not in (
                    "classmethod", "staticmethod", "property",
                    "abstractmethod", "cached_property", "setter",
                    "wraps", "lru_cache", "cache"):
                # what runs is whatever the decorator returns, which this
                # interpreter does not evaluate
                raise Unsupported("%s is wrapped by the decorator @%s"
                                  % (fn.name, unparse(d_, 60)))
        self.depth += 1
        if self.depth > 60:
            raise Unsupported("recursion too deep at %s" % fn.name)
        try:
            a = fn.args
            env = {}
            params = [p.arg for p in a.args]
            pos = list(args)
            if kind in ("inst", "classmethod", "property") and \
                    self_ is not None:
                pos = [self_] + pos
            defaults = [None] * (len(params) - len(a.defaults)) + list(
                a.defaults)
            for i, p in enumerate(params):
                if i < len(pos):
                    env[p] = pos[i]
                elif p in kwargs:
                    env[p] = kwargs[p]
                elif defaults[i] is not None:
                    env[p] = self.const_expr(defaults[i], owner, mod)
                else:
                    raise Raise("TypeError: missing argument %s of %s"
                                % (p, fn.name))
            if a.vararg:
                env[a.vararg.arg] = tuple(pos[len(params):])
            elif len(pos) > len(params):
                raise Raise("TypeError: too many arguments for %s" % fn.name)
            for i, k in enumerate(a.kwonlyargs):
                if k.arg in kwargs:
                    env[k.arg] = kwargs[k.arg]
                elif a.kw_defaults[i] is not None:
                    env[k.arg] = self.const_expr(a.kw_defaults[i], owner, mod)
                else:
                    raise Raise("TypeError: missing keyword %s" % k.arg)
            extra = {k: v for k, v in kwargs.items() if k not in env}
            if a.kwarg:
                env[a.kwarg.arg] = extra
            elif extra:
                raise Raise("TypeError: unexpected keyword %s"
                            % sorted(extra))
            ctx = {"owner": owner, "mod": mod or owner.mod, "fn": fn}
            out = []
            for sig, _e, st2 in self.block(fn.body, env, st, ctx):
                if sig[0] == "return":
                    out.append((sig[1], st2))
                elif sig[0] == "next":
                    out.append((None, st2))
                elif sig[0] == "raise":
                    out.append((sig[1], st2))
            return out
        finally:
            self.depth -= 1

    def const_expr(self, e, owner, mod):
        try:
            return ast.literal_eval(e)
        except Exception:
            v = self.folder.eval(e, {}, mod or owner.mod)
            if v is UNKNOWN:
                raise Unsupported("default value %s" % unparse(e))
            return v

    # -- statements ---------------------------------------------------------------
    def block(self, stmts, env, st, ctx):
        paths = [(env, st)]
        for stmt in stmts:
            nxt = []
            for env_, st_ in paths:
                for sig, env2, st2 in self.stmt(stmt, env_, st_, ctx):
                    if sig[0] == "next":
                        nxt.append((env2, st2))
                    else:
                        yield sig, env2, st2
            paths = nxt
            if not paths:
                return
        for env_, st_ in paths:
            yield ("next",), env_, st_

    def forkenv(self, env, st):
        self.stats["forks"] += 1
        return dict(env), st.fork()

    def _is_log_statement(self, n, env, ctx):
        c = n.value
        if not (isinstance(c, ast.Call) and isinstance(
                c.func, ast.Attribute) and c.func.attr in (
                    "debug", "info", "warning", "warn", "error", "exception",
                    "critical", "log", "trace") and isinstance(
                        c.func.value, ast.Name) and
                c.func.value.id not in env):
            return False
        b = self.world.lookup(ctx["mod"], c.func.value.id)
        v = getattr(b, "value", None) if b is not None and getattr(
            b, "kind", None) == "expr" else None
        if not (isinstance(v, ast.Call) and ast.unparse(v.func).endswith(
                "getLogger")):
            return False
        for a in list(c.args) + [k.value for k in c.keywords]:
            for x in ast.walk(a):
                if isinstance(x, ast.Call) and isinstance(
                        x.func, ast.Name) and x.func.id == "len" and len(
                            x.args) == 1 and isinstance(
                                x.args[0], (ast.Name, ast.Attribute)):
                    continue        # the length of something at hand
                if isinstance(x, (ast.Call, ast.Await, ast.Yield,
                                  ast.YieldFrom, ast.NamedExpr)):
                    return False
                if isinstance(x, ast.FormattedValue) and \
                        x.format_spec is not None:
                    return False
        return True

    def stmt(self, n, env, st, ctx):
        try:
            yield from self.stmt_(n, env, st, ctx)
        except Raise as r:
            yield ("raise", r), env, st

    def stmt_(self, n, env, st, ctx):
        if isinstance(n, ast.Expr):
            if isinstance(n.value, ast.Constant):
                yield ("next",), env, st
                return
            if self._is_log_statement(n, env, ctx):
                # a record written to a module-level logger, with arguments
                # that call nothing and format nothing eagerly: not part of
                # what the decoder computes
                yield ("next",), env, st
                return
            for v, env2, st2 in self.ev(n.value, env, st, ctx):
                yield (("raise", v) if isinstance(v, Raise) else ("next",)), \
                    env2, st2
        elif isinstance(n, (ast.Assign, ast.AnnAssign)):
            if isinstance(n, ast.AnnAssign) and n.value is None:
                yield ("next",), env, st
                return
            for v, env2, st2 in self.ev(n.value, env, st, ctx):
                if isinstance(v, Raise):
                    yield ("raise", v), env2, st2
                    continue
                env2 = dict(env2)
                targets = n.targets if isinstance(n, ast.Assign) else [
                    n.target]
                try:
                    for t in targets:
                        self.assign(t, v, env2, st2, ctx)
                except Raise as r:
                    yield ("raise", r), env2, st2
                    continue
                yield ("next",), env2, st2
        elif isinstance(n, ast.AugAssign):
            t = n.target
            if isinstance(t, ast.Name):
                load = ast.Name(t.id, ast.Load())
            elif isinstance(t, ast.Attribute):
                load = ast.Attribute(t.value, t.attr, ast.Load())
            elif isinstance(t, ast.Subscript):
                load = ast.Subscript(t.value, t.slice, ast.Load())
            else:
                raise Unsupported("augmented assignment target")
            ast.copy_location(load, t)
            e = ast.copy_location(ast.BinOp(load, n.op, n.value), n)
            ast.fix_missing_locations(e)
            for v, env2, st2 in self.ev(e, env, st, ctx):
                if isinstance(v, Raise):
                    yield ("raise", v), env2, st2
                    continue
                env2 = dict(env2)
                try:
                    self.assign(n.target, v, env2, st2, ctx)
                except Raise as r:
                    yield ("raise", r), env2, st2
                    continue
                yield ("next",), env2, st2
        elif isinstance(n, ast.Return):
            if n.value is None:
                yield ("return", None), env, st
                return
            for v, env2, st2 in self.ev(n.value, env, st, ctx):
                if isinstance(v, Raise):
                    yield ("raise", v), env2, st2
                else:
                    yield ("return", v), env2, st2
        elif isinstance(n, ast.Raise):
            yield ("raise", Raise(unparse(n.exc)[:70] if n.exc else
                                  "re-raise", n)), env, st
        elif isinstance(n, ast.If):
            for b, env2, st2 in self.cond(n.test, env, st, ctx):
                if isinstance(b, Raise):
                    yield ("raise", b), env2, st2
                    continue
                body = n.body if b else n.orelse
                for sig, env3, st3 in self.block(body, env2, st2, ctx):
                    yield sig, env3, st3
        elif isinstance(n, ast.For):
            for it, env2, st2 in self.ev(n.iter, env, st, ctx):
                if isinstance(it, Raise):
                    yield ("raise", it), env2, st2
                    continue
                try:
                    items = list(it)
                except TypeError:
                    raise Unsupported("for over %r" % (it,))
                yield from self.forloop(n, items, 0, env2, st2, ctx)
        elif isinstance(n, ast.Pass):
            yield ("next",), env, st
        elif isinstance(n, ast.Try):
            # try bodies in the codec modules only guard conversions; treat
            # a raise inside the body as caught by a matching handler
            for sig, env2, st2 in self.block(n.body, env, st, ctx):
                if sig[0] == "raise" and n.handlers:
                    h = n.handlers[0]
                    for s2 in self.block(h.body, env2, st2, ctx):
                        yield s2
                else:
                    yield sig, env2, st2
        elif isinstance(n, ast.Assert):
            yield ("next",), env, st
        else:
            raise Unsupported("statement %s at line %s of %s" % (
                type(n).__name__, n.lineno, ctx["fn"].name))

    def forloop(self, n, items, i, env, st, ctx):
        if i >= len(items):
            yield ("next",), env, st
            return
        env = dict(env)
        self.assign(n.target, items[i], env, st, ctx)
        for sig, env2, st2 in self.block(n.body, env, st, ctx):
            if sig[0] == "next":
                yield from self.forloop(n, items, i + 1, env2, st2, ctx)
            else:
                yield sig, env2, st2

    def assign(self, t, v, env, st, ctx):
        if isinstance(t, ast.Name):
            env[t.id] = v
        elif isinstance(t, ast.Attribute):
            o = st.d(self.ev1(t.value, env, st, ctx))
            if not isinstance(o, Obj):
                raise Unsupported("attribute store on %r" % (o,))
            o.f[t.attr] = v
        elif isinstance(t, ast.Subscript):
            fr = st.d(self.ev1(t.value, env, st, ctx))
            if isinstance(fr, Opaque) and fr.d in ("classattr", "modexpr") \
                    or (isinstance(fr, Opaque) and "Frame(" in str(fr.d)):
                raise Raise("SHARED-STATE: item store into `%s`, an object "
                            "that is not created by this call (class / "
                            "module level): every caller sees the write"
                            % unparse(t.value), t)
            if isinstance(fr, dict) and isinstance(
                    t.value, ast.Name) and t.value.id in env:
                # a dict created by this call and bound to a local
                k = self.ev1(t.slice, env, st, ctx)
                if isinstance(k, (str, int)):
                    new = dict(fr)      # copy: forked worlds share values
                    new[k] = v
                    env[t.value.id] = new
                    return
            if not isinstance(fr, AFrame):
                raise Unsupported("item store on %r" % (fr,))
            if isinstance(t.slice, ast.Slice):
                a = self.ev1(t.slice.lower, env, st, ctx)
                b = self.ev1(t.slice.upper, env, st, ctx)
                hi, lo = max(a, b), min(a, b)
                if hi >= fr.w:
                    raise Raise("IndexError: slice index out of range", t)
                w = hi + 1 - lo
                if isinstance(v, IvInt) and not v.bounded():
                    # Frame.__setitem__ itself refuses values that do not
                    # fit (ValueError) and negative ones: what continues is
                    # a value of exactly the slice's width
                    nv = IvInt(v.name, 0, (1 << w) - 1)
                    _replace(env, st, v, nv)
                    v = nv
                if isinstance(v, NonInt) or not isinstance(
                        v, (int, AInt, ABool, IvInt)):
                    raise Raise("TypeError: value must be an integer", t)
                ls = lanes_of(v)
                # lanes the path has already decided (a range test on the
                # value) count as what they were decided to be
                ls = [lane_val(st, l) if l not in (0, 1) and lane_val(
                    st, l) is not None else l for l in ls]
                if len(ls) > w and any(l != 0 for l in ls[w:]):
                    raise Raise("ValueError: value will not fit in slice "
                                "[%d:%d]" % (hi, lo), t)
                ls = (ls + [0] * w)[:w]
                fr.lanes[lo:hi + 1] = ls
            else:
                k = self.ev1(t.slice, env, st, ctx)
                if not isinstance(k, int) or k >= fr.w or k < 0:
                    raise Raise("IndexError: index out of range", t)
                if isinstance(v, Cmp):
                    if len(v.pairs) == 1 and (
                            (not v.neg and v.pairs[0][1] == 1) or
                            (v.neg and v.pairs[0][1] == 0)):
                        # lane == 1, or not (lane == 0): the lane itself
                        fr.lanes[k] = v.pairs[0][0]
                    else:
                        raise Unsupported("bit store of a comparison")
                elif isinstance(v, ABool):
                    if v.neg:
                        raise Unsupported("bit store of a negated lane")
                    fr.lanes[k] = v.lane
                else:
                    fr.lanes[k] = 1 if v else 0
        elif isinstance(t, ast.Tuple):
            vals = list(v)
            for tt, vv in zip(t.elts, vals):
                self.assign(tt, vv, env, st, ctx)
        else:
            raise Unsupported("assignment target %s" % type(t).__name__)

    def ev1(self, e, env, st, ctx):
        r = list(self.ev(e, env, st, ctx))
        if len(r) != 1:
            raise Unsupported("expression forked where a single value is "
                              "needed: " + unparse(e))
        if isinstance(r[0][0], Raise):
            raise r[0][0]
        return r[0][0]

    # -- conditions ------------------------------------------------------------------
    def cond(self, e, env, st, ctx):
        if isinstance(e, ast.BoolOp):
            yield from self.boolop(e.op, e.values, env, st, ctx)
            return
        if isinstance(e, ast.UnaryOp) and isinstance(e.op, ast.Not):
            for b, env2, st2 in self.cond(e.operand, env, st, ctx):
                yield (b if isinstance(b, Raise) else (not b)), env2, st2
            return
        for v, env2, st2 in self.ev(e, env, st, ctx):
            yield from self.truth(v, env2, st2)

    def boolop(self, op, vals, env, st, ctx):
        first, rest = vals[0], vals[1:]
        for b, env2, st2 in self.cond(first, env, st, ctx):
            if isinstance(b, Raise) or not rest:
                yield b, env2, st2
                continue
            if isinstance(op, ast.And):
                if not b:
                    yield False, env2, st2
                else:
                    yield from self.boolop(op, rest, env2, st2, ctx)
            else:
                if b:
                    yield True, env2, st2
                else:
                    yield from self.boolop(op, rest, env2, st2, ctx)

    def valop(self, op, vals, env, st, ctx):
        first, rest = vals[0], vals[1:]
        for v, env1, st1 in self.ev(first, env, st, ctx):
            if isinstance(v, Raise) or not rest:
                yield v, env1, st1
                continue
            for b, env2, st2 in self.truth(v, env1, st1):
                if isinstance(b, Raise):
                    yield b, env2, st2
                elif bool(b) == isinstance(op, ast.Or):
                    # decided here: the value of the expression is this
                    # operand (a lane test that came out true / false reads
                    # as that constant)
                    out = v
                    if isinstance(v, (ABool, Cmp, IvCmp, Either)):
                        out = bool(b)
                    yield out, env2, st2
                else:
                    yield from self.valop(op, rest, env2, st2, ctx)

    def truth(self, v, env, st):
        if isinstance(v, Raise):
            yield v, env, st
            return
        if isinstance(v, ABool):
            kv = lane_val(st, v.lane)
            if kv is not None:
                yield bool(kv) ^ v.neg, env, st
                return
            for val in (0, 1):
                e2, s2 = self.forkenv(env, st)
                if assume(s2, v.lane, val):
                    yield bool(val) ^ v.neg, e2, s2
            return
        if isinstance(v, AInt):
            # nonzero test: fork on "all lanes zero"
            pairs = [(l, 0) for l in v.lanes if l not in (0, 1)]
            if any(l == 1 for l in v.lanes):
                yield True, env, st
                return
            yield from Cmp(pairs, neg=True).split(self, env, st)
            return
        if isinstance(v, Cmp):
            yield from v.split(self, env, st)
            return
        if isinstance(v, (IvCmp, BitLenCmp)):
            yield from v.split(self, env, st)
            return
        if isinstance(v, Either):
            for val in (True, False):
                e2, s2 = self.forkenv(env, st)
                s2.notes.append("either: %s -> %s" % (v.what, val))
                yield val, e2, s2
            return
        if isinstance(v, (Ref, ClsRef, Bound)):
            o = st.d(v) if isinstance(v, Ref) else v
            if isinstance(o, AFrame):
                yield True, env, st
                return
            if isinstance(o, Obj) and o.cls is not None:
                # an instance is true unless its class says otherwise
                for dunder in ("__bool__", "__len__"):
                    r = o.cls.lookup(dunder)
                    if r is None or r[1] in ("attr", "class"):
                        continue
                    for rv, st2 in self.call_fn(r[2], r[0], [], {}, st,
                                                self_=v, kind="inst"):
                        if isinstance(rv, Raise):
                            yield rv, _sync_iv(env, st2), st2
                        else:
                            yield from self.truth(rv, _sync_iv(env, st2),
                                                  st2)
                    return
            yield True, env, st
            return
        if isinstance(v, Sym):
            # a symbolic small integer is falsy exactly when it is 0
            yield from Cmp([(("symv", v.n), 0)], neg=True).split(
                self, env, st)
            return
        if isinstance(v, Opaque):
            raise Unsupported("truth of opaque value %r" % v)
        if isinstance(v, IvInt):
            # truthy <=> != 0
            yield from IvCmp(v, "==", 0, neg=True).split(self, env, st)
            return
        if isinstance(v, NonInt):
            yield True, env, st
            return
        yield bool(v), env, st

    # -- expressions --------------------------------------------------------------------
    def ev(self, e, env, st, ctx):
        try:
            yield from self.ev_(e, env, st, ctx)
        except Raise as r:
            yield r, env, st

    def ev_(self, e, env, st, ctx):
        if isinstance(e, ast.Constant):
            yield e.value, env, st
        elif isinstance(e, ast.Name):
            if e.id in env:
                yield env[e.id], env, st
                return
            if e.id in ("int", "isinstance", "len", "hasattr", "list",
                        "super", "range", "type", "issubclass", "str",
                        "bool", "getattr", "tuple", "max", "min", "dict",
                        "next", "any", "all", "filter", "enumerate",
                        "zip", "reversed"):
                yield ("builtin", e.id), env, st
                return
            if e.id in ("True", "False", "None"):
                yield {"True": True, "False": False, "None": None}[e.id], \
                    env, st
                return
            if e.id in ("ValueError", "TypeError", "NotImplementedError",
                        "Exception", "RuntimeError"):
                yield ("exc", e.id), env, st
                return
            b = self.world.lookup(ctx["mod"], e.id)
            if b is None:
                raise Unsupported("name %s in %s" % (e.id, ctx["mod"]))
            yield self.wrap(b), env, st
        elif isinstance(e, ast.Attribute):
            for o, env2, st2 in self.ev(e.value, env, st, ctx):
                if isinstance(o, Raise):
                    yield o, env2, st2
                    continue
                yield from self.getattr(o, e.attr, env2, st2, ctx)
        elif isinstance(e, ast.Subscript):
            for o, env2, st2 in self.ev(e.value, env, st, ctx):
                if isinstance(o, Raise):
                    yield o, env2, st2
                    continue
                o = st2.d(o)
                if isinstance(o, AFrame):
                    if isinstance(e.slice, ast.Slice):
                        a = self.ev1(e.slice.lower, env2, st2, ctx)
                        b = self.ev1(e.slice.upper, env2, st2, ctx)
                        hi, lo = max(a, b), min(a, b)
                        if hi >= o.w:
                            raise Raise("IndexError: slice [%d:%d] of a "
                                        "%d-bit frame" % (hi, lo, o.w), e)
                        yield norm(AInt(o.lanes[lo:hi + 1])), env2, st2
                    else:
                        k = self.ev1(e.slice, env2, st2, ctx)
                        if not isinstance(k, int) or k >= o.w or k < 0:
                            raise Raise("IndexError: bit %r of a %d-bit "
                                        "frame" % (k, o.w), e)
                        l = o.lanes[k]
                        yield (bool(l) if l in (0, 1) else ABool(l)), env2, \
                            st2
                elif isinstance(o, (tuple, list)):
                    for ix, e3, s3 in self.ev(e.slice, env2, st2, ctx):
                        if isinstance(ix, Raise):
                            yield ix, e3, s3
                        elif not isinstance(ix, int):
                            raise Unsupported("symbolic index %r" % (ix,))
                        elif -len(o) <= ix < len(o):
                            yield o[ix], e3, s3
                        else:
                            yield Raise("IndexError: tuple index out of "
                                        "range", e), e3, s3
                elif isinstance(o, dict):
                    k = self.ev1(e.slice, env2, st2, ctx)
                    if not _concrete_key(k):
                        reg = self._convf(o, "<dict>")
                        for v, e3, s3 in self.regget(
                                reg, [k, ("__missing__",)], env2, st2):
                            if v == ("__missing__",):
                                yield Raise("KeyError", e), e3, s3
                            else:
                                yield v, e3, s3
                        continue
                    if k not in o:
                        raise Raise("KeyError: %r" % (k,), e)
                    yield (o[k].value if isinstance(o[k], EnumMember)
                           else o[k]), env2, st2
                elif isinstance(o, Registry):
                    k = self.ev1(e.slice, env2, st2, ctx)
                    for v, e3, s3 in self.regget(o, [k, ("__missing__",)],
                                                 env2, st2):
                        if v == ("__missing__",):
                            yield Raise("KeyError in %s" % o.name, e), e3, s3
                        else:
                            yield v, e3, s3
                else:
                    if isinstance(o, Opaque) and o.d in ("str", "fstr",
                                                         "fmt"):
                        yield Opaque("str"), env2, st2
                        continue
                    raise Unsupported("subscript on %r" % (o,))
        elif isinstance(e, ast.Tuple):
            yield tuple(self.ev1(x, env, st, ctx) for x in e.elts), env, st
        elif isinstance(e, ast.List):
            yield [self.ev1(x, env, st, ctx) for x in e.elts], env, st
        elif isinstance(e, ast.BinOp):
            l = self.ev1(e.left, env, st, ctx)
            r = self.ev1(e.right, env, st, ctx)
            try:
                yield self.binop(e.op, l, r), env, st
            except NeedSplit as ns:
                def conc(v, s_):
                    if isinstance(v, int):
                        return v
                    return sum((lane_val(s_, x) or 0) << i
                               for i, x in enumerate(lanes_of(v)))
                for bits in range(1 << len(ns.lanes)):
                    e2, s2 = self.forkenv(env, st)
                    if all(assume(s2, ln, (bits >> i) & 1)
                           for i, ln in enumerate(ns.lanes)) and \
                            satisfiable(s2):
                        yield self.binop(e.op, conc(l, s2), conc(r, s2)), \
                            e2, s2
        elif isinstance(e, ast.Compare):
            if len(e.ops) != 1:
                # a < b < c  ==  a < b and b < c (operands here are names,
                # attributes and constants: evaluating b twice is harmless)
                terms, left = [], e.left
                for op, right in zip(e.ops, e.comparators):
                    terms.append(ast.copy_location(
                        ast.Compare(left, [op], [right]), e))
                    left = right
                yield from self.cond(ast.copy_location(
                    ast.BoolOp(ast.And(), terms), e), env, st, ctx)
                return
            if isinstance(e.left, ast.NamedExpr) or isinstance(
                    e.comparators[0], ast.NamedExpr):
                # a walrus operand may fork (a decoder call) and binds its
                # name for what follows
                for l, env1, st1 in list(self.ev(e.left, env, st, ctx)):
                    if isinstance(l, Raise):
                        yield l, env1, st1
                        continue
                    for r, env2, st2 in list(self.ev(e.comparators[0], env1,
                                                     st1, ctx)):
                        if isinstance(r, Raise):
                            yield r, env2, st2
                            continue
                        yield self.compare(e.ops[0], l, r, st2), env2, st2
                return
            if isinstance(e.ops[0], (ast.In, ast.NotIn)) and isinstance(
                    e.comparators[0], (ast.Tuple, ast.List, ast.Set)) and \
                    e.comparators[0].elts and not any(
                        isinstance(x, ast.Starred)
                        for x in e.comparators[0].elts) and isinstance(
                            e.left, (ast.Name, ast.Attribute,
                                     ast.Subscript)):
                # x in (a, b): x == a or x == b (x read more than once has
                # no effect here: a name, an attribute, a frame slice)
                alts = [ast.copy_location(ast.Compare(
                    e.left, [ast.Eq()], [x]), e)
                    for x in e.comparators[0].elts]
                both = alts[0] if len(alts) == 1 else ast.copy_location(
                    ast.BoolOp(ast.Or(), alts), e)
                if isinstance(e.ops[0], ast.NotIn):
                    both = ast.copy_location(ast.UnaryOp(ast.Not(), both), e)
                ast.fix_missing_locations(both)
                yield from self.cond(both, env, st, ctx)
                return
            l = self.ev1(e.left, env, st, ctx)
            r = self.ev1(e.comparators[0], env, st, ctx)
            if isinstance(e.ops[0], (ast.Is, ast.IsNot)) and type(
                    l) is int and type(r) is int and any(
                        self._names_enum_member(x, ctx) for x in (
                            e.left, e.comparators[0])) and not any(
                                isinstance(x, ast.Constant) for x in (
                                    e.left, e.comparators[0])):
                # identity with an enum member written out in the source:
                # members are singletons (this interpreter carries them as
                # their values), so it is equality with the member's value
                res = l == r
                yield (res if isinstance(e.ops[0], ast.Is) else not res), \
                    env, st
                return
            if isinstance(e.ops[0], (ast.In, ast.NotIn)) and \
                    isinstance(l, IvInt) and isinstance(r, range) and \
                    r.step == 1:
                # x in range(a, b)  ==  a <= x and x < b for an int x
                both = ast.copy_location(ast.BoolOp(ast.And(), [
                    ast.copy_location(ast.Compare(
                        e.left, [ast.GtE()], [ast.Constant(r.start)]), e),
                    ast.copy_location(ast.Compare(
                        e.left, [ast.Lt()], [ast.Constant(r.stop)]), e)]), e)
                if isinstance(e.ops[0], ast.NotIn):
                    both = ast.copy_location(ast.UnaryOp(ast.Not(), both), e)
                yield from self.cond(both, env, st, ctx)
                return
            yield self.compare(e.ops[0], l, r, st), env, st
        elif isinstance(e, ast.BoolOp):
            # `a or b` / `a and b` as values: the operand that decides
            yield from self.valop(e.op, list(e.values), env, st, ctx)
        elif isinstance(e, ast.UnaryOp) and isinstance(e.op, ast.Not):
            for b, env2, st2 in self.cond(e, env, st, ctx):
                yield b, env2, st2
        elif isinstance(e, ast.UnaryOp) and isinstance(e.op, ast.USub):
            v = self.ev1(e.operand, env, st, ctx)
            if isinstance(v, int):
                yield -v, env, st
            else:
                raise Unsupported("negation of %r" % (v,))
        elif isinstance(e, ast.NamedExpr):
            # (name := value): the value, with the name bound afterwards
            for v, env2, st2 in list(self.ev(e.value, env, st, ctx)):
                if not isinstance(v, Raise):
                    env2 = dict(env2)    # result worlds may share one env
                    env2[e.target.id] = v
                yield v, env2, st2
        elif isinstance(e, ast.IfExp):
            for b, env2, st2 in self.cond(e.test, env, st, ctx):
                if isinstance(b, Raise):
                    yield b, env2, st2
                    continue
                yield from self.ev(e.body if b else e.orelse, env2, st2, ctx)
        elif isinstance(e, ast.Call):
            yield from self.call(e, env, st, ctx)
        elif isinstance(e, (ast.ListComp, ast.GeneratorExp, ast.SetComp)):
            for v, e2, s2 in self._comp(e.elt, list(e.generators), env, st,
                                        ctx):
                # the comprehension has its own scope: keep the outer env
                yield v, env, s2
        elif isinstance(e, ast.DictComp):
            pair = ast.Tuple([e.key, e.value], ast.Load())
            for v, e2, s2 in self._comp(pair, list(e.generators), env, st,
                                        ctx):
                yield (v if isinstance(v, Raise) else dict(v)), env, s2
        elif isinstance(e, ast.JoinedStr):
            # the formatted values are evaluated (an AttributeError raised
            # by one of them is the f-string's), the text itself is opaque
            paths = [(env, st)]
            for part in e.values:
                if not isinstance(part, ast.FormattedValue):
                    continue
                nxt = []
                for (e1, s1) in paths:
                    try:
                        for v, e2, s2 in self.ev(part.value, e1, s1, ctx):
                            if isinstance(v, Raise):
                                yield v, e2, s2
                            else:
                                nxt.append((e2, s2))
                    except Unsupported:
                        nxt.append((e1, s1))
                paths = nxt
            for (e1, s1) in paths:
                yield Opaque("fstr"), e1, s1
        elif isinstance(e, ast.Dict):
            yield {self.ev1(k, env, st, ctx): self.ev1(v, env, st, ctx)
                   for k, v in zip(e.keys, e.values)}, env, st
        else:
            raise Unsupported("expression %s" % type(e).__name__)

    def wrap(self, b):
        if b.kind == "class":
            return ClsRef(b.value)
        if b.kind == "module":
            return Mod(b.value)
        if b.kind == "func":
            return ("fn", b.mod, b.value)
        if b.kind == "method":
            owner, kind, fn = b.value
            return Bound(ClsRef(owner), owner, fn, kind)
        if b.kind == "ext":
            return ("ext", b.value)
        if b.kind == "expr":
            v = self.folder.eval(b.value, {}, b.mod)
            if v is UNKNOWN:
                return Opaque("modexpr")
            return self._convf(v, getattr(b, "name", "") or "module table")
        if b.kind == "classattr":
            owner, name, node = b.value
            v = self.folder.class_attr(owner, name)
            return Opaque("classattr") if v is UNKNOWN else v
        raise Unsupported("binding %r" % (b,))

    def getattr(self, o, name, env, st, ctx):
        if isinstance(o, Mod):
            full = o.m + "." + name
            if full in self.world.repo.modules:
                yield Mod(full), env, st
                return
            if o.m in self.world.ns:
                b = self.world.lookup(o.m, name)
                if b is None:
                    raise Unsupported("module attribute %s" % full)
                yield self.wrap(b), env, st
                return
            yield ("ext", full), env, st
            return
        if isinstance(o, Ref) and isinstance(st.d(o), Obj):
            oo = st.d(o)
            if name in oo.f:
                yield oo.f[name], env, st
                return
            if name == "__class__":
                yield ClsRef(oo.cls), env, st
                return
            if oo.cls is None:
                raise Raise("AttributeError: %s" % name)
            yield from self.clsattr(oo.cls, name, o, env, st, ctx)
            return
        if isinstance(o, ClsRef):
            if name == "__name__":
                yield o.c.name, env, st
                return
            yield from self.clsattr(o.c, name, o, env, st, ctx)
            return
        if isinstance(o, Ref):
            fr = st.d(o)
            if isinstance(fr, AFrame):
                if name == "as_integer":
                    yield norm(AInt(fr.lanes)), env, st
                    return
                if name in ("as_byte_sequence", "pack"):
                    # (pack: the same bytes as a bytes object - C05 decides
                    # that the two agree)
                    nb = (fr.w + 7) // 8
                    ls = fr.lanes + [0] * (nb * 8 - fr.w)
                    seq = [norm(AInt(ls[8 * i:8 * i + 8]))
                           for i in reversed(range(nb))]
                    yield (tuple(seq) if name == "pack" else seq), env, st
                    return
                if name in ("is_reserved", "is_proprietary"):
                    yield fr.w in (20, 32) if name == "is_reserved" else \
                        fr.w not in (16, 20, 24, 32), env, st
                    return
            raise Unsupported("attribute %s of %r" % (name, fr))
        if isinstance(o, (str, Opaque)) and (isinstance(o, str) or o.d in (
                "str", "fstr", "fmt")) and name in (
                    "format", "join", "upper", "lower", "strip", "title",
                    "capitalize", "replace", "ljust", "rjust", "center",
                    "zfill", "lstrip", "rstrip"):
            # text built from values: the arguments are evaluated (and may
            # raise), the text itself is opaque
            yield ("strmeth", name), env, st
            return
        if isinstance(o, Registry) and name == "get":
            yield ("regget", o), env, st
            return
        if isinstance(o, tuple) and o and o[0] == "map" and \
                name == "get_type":
            yield ("mapget", o[1]), env, st
            return
        if isinstance(o, dict) and name in ("pop", "get"):
            yield ("dict" + name, o), env, st
            return
        if isinstance(o, dict) and name in ("items", "keys", "values"):
            yield ("dictview", o, name), env, st
            return
        if isinstance(o, tuple) and o and o[0] == "ext":
            yield Opaque("ext"), env, st
            return
        if isinstance(o, tuple) and o and o[0] == "super":
            _, owner, self_ = o
            k0 = st.d(self_).cls if isinstance(self_, Ref) else self_.c
            mro = [k for k in k0.mro if isinstance(k, ClassInfo)]
            if owner not in mro:
                raise Unsupported("super(): %s not in MRO of %s" % (
                    owner.qname, k0.qname))
            for k in mro[mro.index(owner) + 1:]:
                if name in k.methods:
                    kind, fn = k.methods[name]
                    yield Bound(self_, k, fn, kind), env, st
                    return
            yield ("objinit",), env, st
            return
        if isinstance(o, (int, AInt, IvInt)) and name == "bit_length":
            yield ("bitlen", o), env, st
            return
        if isinstance(o, Obj):
            if name in o.f:
                yield o.f[name], env, st
                return
        if o is None:
            raise Raise("AttributeError: None.%s" % name)
        if isinstance(o, (IvInt, NonInt)) and name in (
                "address_obj", "add_to_frame"):
            raise Raise("AttributeError: %s" % name)
        raise Unsupported("attribute %s of %r" % (name, o))

    def clsattr(self, c, name, recv, env, st, ctx):
        reg = self.registry(c, name)
        if reg is not None:
            yield reg, env, st
            return
        r = c.lookup(name)
        if r is None:
            raise Raise("AttributeError: %s.%s" % (c.name, name))
        owner, kind, node = r
        if kind == "class":
            # nested NamedTuple classes
            if any(isinstance(b, str) and b.endswith("NamedTuple")
                   for b in node.mro):
                names = [x[0] for x in node.attr_order] or [
                    s.target.id for s in node.node.body
                    if isinstance(s, ast.AnnAssign)]
                fields = [s.target.id for s in node.node.body
                          if isinstance(s, ast.AnnAssign)]
                defaults = {}
                for s in node.node.body:
                    if isinstance(s, ast.AnnAssign) and s.value is not None:
                        defaults[s.target.id] = ast.literal_eval(s.value)
                yield ("nt", node.name, defaults, fields), env, st
                return
            yield ClsRef(node), env, st
            return
        if kind == "attr":
            # `m = Other.m` in a class body: the member of the other class
            # under another name (bound to the receiver like any method)
            if isinstance(node, ast.Attribute) and isinstance(
                    node.value, (ast.Name, ast.Attribute)):
                try:
                    k2 = self.world.resolve_class(owner.mod, node.value)
                except Exception:
                    k2 = None
                r2 = k2.lookup(node.attr) if k2 is not None else None
                if r2 is not None and r2[1] not in ("attr", "class"):
                    yield from self.clsattr(k2, node.attr, recv, env, st,
                                            ctx)
                    return
            v = self.folder.class_attr(c, name)
            if v is UNKNOWN:
                if isinstance(node, (ast.Dict, ast.List)) or (
                        isinstance(node, ast.Call) and unparse(
                            node.func) in ("dict", "list")):
                    raise Unsupported("registry %s.%s has no interpreted "
                                      "value" % (owner.qname, name))
                yield Opaque(unparse(node)), env, st
                return
            if isinstance(v, FClassRef):
                v = ClsRef(v.cls)
            elif isinstance(v, EnumMember):
                v = v.value
            yield v, env, st
            return
        fn = node
        if kind == "property":
            if not isinstance(recv, Ref):
                yield Opaque("property-on-class"), env, st
                return
            for v, st2 in self.call_fn(fn, owner, [], {}, st, self_=recv,
                                       kind="property"):
                yield v, _sync_iv(env, st2), st2
            return
        if kind == "classmethod":
            rc = recv if isinstance(recv, ClsRef) else ClsRef(
                st.d(recv).cls)
            yield Bound(rc, owner, fn, kind), env, st
        elif kind == "staticmethod":
            yield Bound(None, owner, fn, kind), env, st
        else:
            yield Bound(recv, owner, fn, kind), env, st

    def binop(self, op, l, r):
        if isinstance(l, bool):
            l = int(l)
        if isinstance(r, bool):
            r = int(r)
        if isinstance(op, ast.Mod) and isinstance(l, str):
            return Opaque("fmt")
        if isinstance(l, str) or isinstance(r, str):
            if isinstance(op, ast.Add):
                return Opaque("str")
        if isinstance(op, ast.Add) and any(isinstance(x, Opaque) and x.d in (
                "str", "fstr", "fmt") for x in (l, r)) and all(
                    isinstance(x, (str, Opaque)) for x in (l, r)):
            return Opaque("str")
        if isinstance(l, int) and isinstance(r, int):
            table = {ast.BitOr: lambda: l | r, ast.BitAnd: lambda: l & r,
                     ast.LShift: lambda: l << r, ast.RShift: lambda: l >> r,
                     ast.Add: lambda: l + r, ast.Sub: lambda: l - r,
                     ast.BitXor: lambda: l ^ r, ast.Mult: lambda: l * r,
                     ast.FloorDiv: lambda: l // r, ast.Mod: lambda: l % r}
            if type(op) in table:
                return table[type(op)]()
        for v in (l, r):
            if isinstance(v, IvInt) and not v.bounded():
                if isinstance(op, (ast.BitAnd, ast.Mod)):
                    raise Raise("TRUNCATED:%s" % v.name)
                raise Raise("UNVALIDATED:%s" % v.name)
            if isinstance(v, NonInt):
                raise Raise("TypeError: non-int operand")
        if isinstance(l, IvInt):
            l = norm(AInt(lanes_of(l)))
        if isinstance(r, IvInt):
            r = norm(AInt(lanes_of(r)))
        if isinstance(op, (ast.BitOr, ast.BitAnd)):
            a, b = lanes_of(l), lanes_of(r)
            n = max(len(a), len(b))
            a += [0] * (n - len(a))
            b += [0] * (n - len(b))
            out = []
            for x, y in zip(a, b):
                if isinstance(op, ast.BitOr):
                    out.append(1 if 1 in (x, y) else (
                        y if x == 0 else (x if y == 0 else (
                            x if x == y else T))))
                else:
                    out.append(0 if 0 in (x, y) else (
                        y if x == 1 else (x if y == 1 else (
                            x if x == y else T))))
            return norm(AInt(out))
        if isinstance(op, ast.LShift) and isinstance(r, int):
            return norm(AInt([0] * r + lanes_of(l)))
        if isinstance(op, ast.RShift) and isinstance(r, int):
            return norm(AInt(lanes_of(l)[r:]))
        if isinstance(op, ast.Add) and isinstance(l, (tuple, list)) and \
                isinstance(r, (tuple, list)):
            return tuple(l) + tuple(r)
        if isinstance(op, (ast.Add, ast.Sub, ast.Mult, ast.FloorDiv,
                           ast.Mod)) and all(isinstance(
                               x, (int, AInt, ABool)) for x in (l, r)):
            free = []
            for x in (l, r):
                if not isinstance(x, int):
                    free += [ln for ln in lanes_of(x) if ln not in (0, 1)
                             and ln not in free]
            if len(free) <= 8:
                raise NeedSplit(free)
        raise Unsupported("operator %s on %r, %r" % (type(op).__name__, l,
                                                     r))

    def _names_enum_member(self, e, ctx):
        """Is the expression a dotted name that the folder resolves to an
        enum member (`EventScheme.device`)?"""
        r_ = e
        while isinstance(r_, ast.Attribute):
            r_ = r_.value
        if not (isinstance(e, ast.Attribute) and isinstance(r_, ast.Name)):
            return False
        try:
            owner = ctx.get("owner")
            v = self.folder.eval(e, {}, ctx.get("mod"), owner)
        except Exception:
            return False
        return isinstance(v, EnumMember)

    def compare(self, op, l, r, st=None):
        if isinstance(op, (ast.Is, ast.IsNot)):
            if isinstance(l, ABool) and isinstance(r, bool):
                c = Cmp([(l.lane, int(r) ^ l.neg)])
                return c if isinstance(op, ast.Is) else c.negate()
            if isinstance(l, Cmp) and isinstance(r, bool):
                c = l if r else l.negate()
                return c if isinstance(op, ast.Is) else c.negate()
            if isinstance(l, ClsRef) and isinstance(r, ClsRef):
                res = l.c is r.c
                return res if isinstance(op, ast.Is) else not res
            symbolic = (AInt, Ref, Sym, IvInt, NonInt, ABool, ClsRef)
            if l is None or r is None or isinstance(l, bool) or \
                    isinstance(r, bool):
                if isinstance(l, symbolic) or isinstance(r, symbolic):
                    res = False
                else:
                    res = l is r
                return res if isinstance(op, ast.Is) else not res
            raise Unsupported("`is` between %r and %r" % (l, r))
        if isinstance(op, (ast.Eq, ast.NotEq)):
            neg = isinstance(op, ast.NotEq)
            if isinstance(l, (IvInt, NonInt)) or isinstance(r, (IvInt,
                                                               NonInt)):
                iv, k = (l, r) if isinstance(l, (IvInt, NonInt)) else (r, l)
                if isinstance(k, str) or k is None or isinstance(iv, NonInt):
                    # "MASK" / "OFF" literal forms are separate shapes
                    return neg
                if isinstance(k, int) and isinstance(iv, IvInt):
                    c = IvCmp(iv, "==", k)
                    return c.negate() if neg else c
            if (isinstance(l, Sym) or isinstance(r, Sym)) and (
                    l is None or r is None):
                return neg
            if isinstance(l, Sym) or isinstance(r, Sym):
                sym, k = (l, r) if isinstance(l, Sym) else (r, l)
                if isinstance(k, Sym):
                    return (sym.n == k.n) ^ neg
                if not isinstance(k, int):
                    return neg
                c = Cmp([(("symv", sym.n), k)])
                return c.negate() if neg else c
            if isinstance(l, (AInt, ABool)) or isinstance(r, (AInt, ABool)):
                if isinstance(l, str) or isinstance(r, str) or l is None \
                        or r is None:
                    return neg
                if isinstance(l, ClsRef) or isinstance(r, ClsRef):
                    return neg
                a, b = lanes_of(l), lanes_of(r)
                n = max(len(a), len(b))
                a += [0] * (n - len(a))
                b += [0] * (n - len(b))
                pairs = []
                for x, y in zip(a, b):
                    if x in (0, 1) and y in (0, 1):
                        if x != y:
                            return neg
                    elif y in (0, 1):
                        pairs.append((x, y))
                    elif x in (0, 1):
                        pairs.append((y, x))
                    elif x == y:
                        continue
                    else:
                        raise Unsupported("comparison of two symbolic lanes")
                c = Cmp(pairs)
                return c.negate() if neg else c
            if isinstance(l, ClsRef) or isinstance(r, ClsRef):
                res = (l == r)
                return (not res) if neg else res
            if isinstance(l, Ref) or isinstance(r, Ref):
                return ("objeq", l, r, neg)
            res = (l == r) if type(l) == type(r) or (
                isinstance(l, (int, bool)) and isinstance(r, (int, bool))) \
                else False
            return (not res) if neg else res
        if isinstance(op, (ast.Lt, ast.Gt, ast.LtE, ast.GtE)):
            if isinstance(l, NonInt) or isinstance(r, NonInt):
                raise Raise("TypeError: ordering a non-int")
            if isinstance(l, BitLen) and isinstance(r, int):
                return BitLenCmp(l.iv, {ast.Lt: "<", ast.Gt: ">",
                                        ast.LtE: "<=", ast.GtE: ">="}[
                                            type(op)], r)
            if isinstance(r, BitLen) and isinstance(l, int):
                return BitLenCmp(r.iv, {ast.Lt: ">", ast.Gt: "<",
                                        ast.LtE: ">=", ast.GtE: "<="}[
                                            type(op)], l)
            if isinstance(l, IvInt) or isinstance(r, IvInt):
                if isinstance(l, IvInt) and isinstance(r, int):
                    return IvCmp(l, {ast.Lt: "<", ast.Gt: ">", ast.LtE: "<=",
                                     ast.GtE: ">="}[type(op)], r)
                if isinstance(r, IvInt) and isinstance(l, int):
                    return IvCmp(r, {ast.Lt: ">", ast.Gt: "<", ast.LtE: ">=",
                                     ast.GtE: "<="}[type(op)], l)
                raise Unsupported("interval comparison")

            def rng(v):
                if isinstance(v, (int, bool)):
                    return int(v), int(v)
                ls = lanes_of(v)
                if st is not None:
                    ls = [lane_val(st, x) if lane_val(st, x) is not None
                          else x for x in ls]
                lo = sum((1 << i) for i, x in enumerate(ls) if x == 1)
                hi = sum((1 << i) for i, x in enumerate(ls) if x != 0)
                return lo, hi
            (a0, a1), (b0, b1) = rng(l), rng(r)
            # a bit vector against a power-of-two boundary: x < 2^k says the
            # lanes from k upwards are all zero (a conjunction the state can
            # be refined with, unlike a free `either`)
            if isinstance(l, (AInt, ABool)) and isinstance(r, int) and \
                    not isinstance(r, bool):
                bound, below = None, None
                if isinstance(op, ast.Lt):
                    bound, below = r, True
                elif isinstance(op, ast.LtE):
                    bound, below = r + 1, True
                elif isinstance(op, ast.GtE):
                    bound, below = r, False
                elif isinstance(op, ast.Gt):
                    bound, below = r + 1, False
                if bound is not None and bound > 0 and \
                        bound & (bound - 1) == 0:
                    k_ = bound.bit_length() - 1
                    ls_ = lanes_of(l)
                    if st is not None:
                        ls_ = [lane_val(st, x) if lane_val(st, x) is not
                               None else x for x in ls_]
                    up = ls_[k_:]
                    if any(x == 1 for x in up):
                        return not below
                    pairs_ = [(x, 0) for x in up if x != 0]
                    if not pairs_:
                        return below
                    c_ = Cmp(pairs_)
                    return c_ if below else c_.negate()
            t = {ast.Lt: (a1 < b0, a0 >= b1), ast.Gt: (a0 > b1, a1 <= b0),
                 ast.LtE: (a1 <= b0, a0 > b1),
                 ast.GtE: (a0 >= b1, a1 < b0)}[type(op)]
            if t[0]:
                return True
            if t[1]:
                return False
            # the lanes are free bits: both outcomes are feasible
            return Either("%s %s %s" % (l, type(op).__name__, r))
        if isinstance(op, (ast.In, ast.NotIn)):
            if isinstance(r, Registry):
                raise Unsupported("`in` on a registry")
            if isinstance(l, (AInt, ABool)) and isinstance(r, range) and \
                    r.step == 1:
                ls = lanes_of(l)
                if st is not None:
                    ls = [lane_val(st, x) if lane_val(st, x) is not None
                          else x for x in ls]
                lo = sum((1 << i) for i, x in enumerate(ls) if x == 1)
                hi = sum((1 << i) for i, x in enumerate(ls) if x != 0)
                pos = isinstance(op, ast.In)
                if r.start <= lo and hi < r.stop:
                    return pos
                if hi < r.start or lo >= r.stop:
                    return not pos
                return Either("%s in %r" % (l, r))
            if isinstance(l, (AInt, Sym, IvInt)):
                raise Unsupported("`in` with a symbolic element")
            res = l in r
            return res if isinstance(op, ast.In) else not res
        raise Unsupported("comparison %s" % type(op).__name__)

    def call(self, e, env, st, ctx):
        for f, env1, st1 in self.ev(e.func, env, st, ctx):
            if isinstance(f, Raise):
                yield f, env1, st1
                continue
            if isinstance(f, tuple) and f[0] == "builtin" and \
                    f[1] == "super":
                owner = ctx["owner"]
                self_ = env1.get("self", env1.get("cls"))
                if e.args:
                    k = self.ev1(e.args[0], env1, st1, ctx)
                    if isinstance(k, ClsRef):
                        owner = k.c
                yield ("super", owner, self_), env1, st1
                continue
            # arguments left to right; an argument whose value depends on
            # a test (conditional expression, comparison of a lane) forks
            items = [("*" if isinstance(a, ast.Starred) else "p",
                      a.value if isinstance(a, ast.Starred) else a)
                     for a in e.args] + [
                ("**" if k.arg is None else k.arg, k.value)
                for k in e.keywords]

            def rec(i, args, kwargs, env_, st_):
                if i == len(items):
                    yield from self.apply(f, args, kwargs, env_, st_, ctx, e)
                    return
                kind, node = items[i]
                for (v, env2, st2) in list(self.ev(node, env_, st_, ctx)):
                    if isinstance(v, Raise):
                        yield v, env2, st2
                        continue
                    a2, k2 = list(args), dict(kwargs)
                    if kind == "p":
                        a2.append(v)
                    elif kind == "*":
                        a2.extend(v)
                    elif kind == "**":
                        k2.update(v)
                    else:
                        k2[kind] = v
                    yield from rec(i + 1, a2, k2, env2, st2)
            yield from rec(0, [], {}, env1, st1)

    def apply(self, f, args, kwargs, env, st, ctx, node):
        if isinstance(f, tuple) and f and f[0] == "builtin":
            n = f[1]
            if n == "isinstance":
                yield self.isinst(st.d(args[0]), args[1]), env, st
            elif n == "issubclass":
                a, b = args
                yield (isinstance(a, ClsRef) and isinstance(b, ClsRef)
                       and b.c in a.c.mro), env, st
            elif n == "len":
                v = st.d(args[0])
                yield (v.w if isinstance(v, AFrame) else len(v)), env, st
            elif n == "hasattr":
                o, a = args
                o = st.d(o)
                if isinstance(o, Obj):
                    yield (a in o.f or (o.cls is not None and
                                        o.cls.lookup(a) is not None)), env, st
                elif isinstance(o, (AInt, int, IvInt)):
                    yield hasattr(0, a), env, st
                elif isinstance(o, NonInt):
                    yield False, env, st
                elif isinstance(o, ClsRef):
                    yield o.c.lookup(a) is not None, env, st
                elif o is None or isinstance(o, (str, tuple)):
                    yield hasattr(o, a), env, st
                else:
                    raise Unsupported("hasattr on %r" % (o,))
            elif n == "getattr":
                got = False
                try:
                    for v, e2, s2 in self.getattr(args[0], args[1], env, st,
                                                  ctx):
                        got = True
                        yield v, e2, s2
                except Raise as r:
                    if "AttributeError" in str(r.exc) and len(args) > 2 \
                            and not got:
                        yield args[2], env, st
                    else:
                        raise
            elif n == "dict":
                d = dict(args[0]) if args else {}
                d.update(kwargs)
                yield d, env, st
            elif n == "next":
                seq = args[0]
                if not isinstance(seq, (list, tuple)):
                    raise Unsupported("next() over %r" % (seq,))
                if seq:
                    yield seq[0], env, st
                elif len(args) > 1:
                    yield args[1], env, st
                else:
                    raise Raise("StopIteration", node)
            elif n == "filter":
                if len(args) != 2 or args[0] is not None or not isinstance(
                        args[1], (list, tuple)):
                    raise Unsupported("filter(%r, ..)" % (args[0],))
                yield from self._filter_truthy(list(args[1]), [], env, st)
            elif n == "enumerate":
                seq = args[0]
                if not isinstance(seq, (list, tuple)):
                    raise Unsupported("enumerate() over %r" % (seq,))
                start = args[1] if len(args) > 1 else kwargs.get("start", 0)
                yield [(start + i, v) for i, v in enumerate(seq)], env, st
            elif n == "zip":
                if not all(isinstance(a, (list, tuple)) for a in args):
                    raise Unsupported("zip() over %r" % (args,))
                yield list(zip(*args)), env, st
            elif n == "reversed":
                if not isinstance(args[0], (list, tuple)):
                    raise Unsupported("reversed() over %r" % (args[0],))
                yield list(reversed(args[0])), env, st
            elif n in ("any", "all"):
                seq = args[0]
                if not isinstance(seq, (list, tuple)):
                    raise Unsupported("%s() over %r" % (n, seq))
                yield from self._anyall(n, list(seq), env, st)
            elif n == "list":
                yield list(args[0]) if args else [], env, st
            elif n == "tuple":
                yield tuple(args[0]) if args else (), env, st
            elif n == "int":
                v = args[0]
                if isinstance(v, (int, AInt, IvInt)):
                    yield v, env, st
                elif isinstance(v, Sym):
                    yield v, env, st
                elif isinstance(v, NonInt):
                    # a value of another type: int() converts it (a float,
                    # a numeric string) or refuses it
                    e2, s2 = self.forkenv(env, st)
                    yield IvInt("coerced"), e2, s2
                    yield Raise("ValueError: invalid literal for int()",
                                node), env, st
                else:
                    raise Unsupported("int(%r)" % (v,))
            elif n == "bool":
                yield from self.truth(args[0], env, st)
            elif n == "range":
                yield range(*args), env, st
            elif n == "str":
                yield Opaque("str"), env, st
            elif n == "type":
                o = st.d(args[0])
                if isinstance(o, Obj) and o.cls is not None:
                    yield ClsRef(o.cls), env, st
                else:
                    yield Opaque("type"), env, st
            else:
                raise Unsupported("builtin %s" % n)
            return
        if isinstance(f, tuple) and f and f[0] == "exc":
            yield ("excobj", f[1]), env, st
            return
        if isinstance(f, tuple) and f and f[0] == "objinit":
            yield None, env, st
            return
        if isinstance(f, tuple) and f and f[0] == "bitlen":
            v = f[1]
            if isinstance(v, int):
                yield v.bit_length(), env, st
                return
            if isinstance(v, IvInt):
                yield BitLen(v), env, st
                return
            raise Unsupported("bit_length of symbolic value")
        if isinstance(f, tuple) and f and f[0] == "strmeth":
            yield Opaque("str"), env, st
            return
        if isinstance(f, tuple) and f and f[0] == "mapget":
            # what the map is asked: kept for the rule that compares the
            # key with the frame's address / instance fields
            st.notes.append(("mapkey",
                             kwargs.get("short_address",
                                        args[0] if args else None),
                             kwargs.get("instance_number",
                                        args[1] if len(args) > 1 else None)))
            if f[1] == "none":
                yield None, env, st
            else:
                yield Sym("it"), env, st
            return
        if isinstance(f, tuple) and f and f[0] == "dictview":
            if args or kwargs:
                raise Raise("TypeError: dict.%s() takes no arguments" % f[2])
            d_ = f[1]
            yield ([(k_, v_) for k_, v_ in d_.items()] if f[2] == "items"
                   else list(d_) if f[2] == "keys"
                   else list(d_.values())), env, st
            return
        if isinstance(f, tuple) and f and f[0] in ("dictpop", "dictget"):
            d = f[1]
            k = args[0]

            if not _concrete_key(k):
                # a key computed from the frame: every entry it can equal
                # is a world of its own (as for registries)
                if f[0] != "dictget":
                    raise Unsupported("dict.pop with a symbolic key")
                reg = self._convf(d, "<dict>")
                a2 = [k] + ([args[1]] if len(args) > 1 else [])
                yield from self.regget(reg, a2, env, st)
                return
            if k in d:
                v = d[k]
                if isinstance(v, EnumMember):
                    v = v.value       # members are carried as their values
            elif len(args) > 1:
                v = args[1]
            elif f[0] == "dictget":
                v = None
            else:
                raise Raise("KeyError", node)
            if f[0] == "dictpop":
                nd = {a: b for a, b in d.items() if a != k}
                env = dict(env)
                for n_, v_ in list(env.items()):
                    if v_ is d:
                        env[n_] = nd
            yield v, env, st
            return
        if isinstance(f, tuple) and f and f[0] == "nt":
            o = Obj(None)
            o.f = dict(f[2])
            o.nt = f[1]
            names = f[3]
            for i, a in enumerate(args):
                o.f[names[i]] = a
            o.f.update(kwargs)
            yield st.new(o), env, st
            return
        if isinstance(f, tuple) and f and f[0] == "regget":
            yield from self.regget(f[1], args, env, st)
            return
        if isinstance(f, tuple) and f and f[0] == "fn":
            for v, st2 in self.call_fn(f[2], None, args, kwargs, st,
                                       kind="static", mod=f[1]):
                yield v, _sync_iv(env, st2), st2
            return
        if isinstance(f, Bound):
            self_ = f.self_
            for v, st2 in self.call_fn(
                    f.fn, f.owner, args, kwargs, st,
                    self_=self_ if f.kind != "staticmethod" else None,
                    kind=f.kind):
                yield v, _sync_iv(env, st2), st2
            return
        if isinstance(f, ClsRef):
            yield from self.instantiate(f.c, args, kwargs, env, st, node)
            return
        if isinstance(f, Opaque):
            yield Opaque("call"), env, st
            return
        raise Unsupported("call of %r" % (f,))

    def instantiate(self, c, args, kwargs, env, st, node):
        if c.qname in ("dali.frame.ForwardFrame", "dali.frame.Frame",
                       "dali.frame.BackwardFrame"):
            w = args[0] if args else kwargs.get("bits")
            data = args[1] if len(args) > 1 else kwargs.get("data", 0)
            if not isinstance(w, int):
                raise Unsupported("frame of symbolic width")
            if isinstance(data, (tuple, list)):
                ls = []
                for b in reversed(data):
                    bl = lanes_of(b)
                    if len(bl) > 8 and any(x != 0 for x in bl[8:]):
                        raise Raise("ValueError: byte out of range", node)
                    ls += (bl + [0] * 8)[:8]
            else:
                if isinstance(data, IvInt) and not data.bounded():
                    # Frame.__init__ refuses negative and oversized data:
                    # what continues fits the frame's width
                    data = IvInt(data.name, 0, (1 << w) - 1)
                ls = lanes_of(data)
            if len(ls) > w and any(x != 0 for x in ls[w:]):
                raise Raise("ValueError: initial data will not fit in %d "
                            "bits" % w, node)
            yield st.new(AFrame(c.name, w, (ls + [0] * w)[:w])), env, st
            return
        if self.folder.is_enum(c):
            v = args[0] if args else None
            if isinstance(v, int):
                mem = self.folder.enum_members(c)
                if v in mem.values() or c.has_ext_base("IntFlag"):
                    yield v, env, st
                else:
                    yield Raise("ValueError: %r is not a valid %s" % (
                        v, c.name), node), env, st
                return
            raise Unsupported("enum of symbolic value")
        o = st.new(Obj(c))
        r = c.lookup("__init__")
        if r is None or r[1] in ("attr", "class"):
            if args or kwargs:
                raise Raise("TypeError: %s() takes no arguments" % c.name)
            yield o, env, st
            return
        for v, st2 in self.call_fn(r[2], r[0], args, kwargs, st, self_=o,
                                   kind="inst"):
            yield (v if isinstance(v, Raise) else o), _sync_iv(env, st2), st2

    def _filter_truthy(self, seq, acc, env, st):
        if not seq:
            yield list(acc), env, st
            return
        for b, e2, s2 in self.truth(seq[0], env, st):
            if isinstance(b, Raise):
                yield b, e2, s2
            else:
                yield from self._filter_truthy(
                    seq[1:], acc + [seq[0]] if b else acc, e2, s2)

    def _anyall(self, n, seq, env, st):
        if not seq:
            yield n == "all", env, st
            return
        for b, e2, s2 in self.truth(seq[0], env, st):
            if isinstance(b, Raise):
                yield b, e2, s2
            elif (n == "any") == bool(b):
                yield n == "any", e2, s2
            else:
                yield from self._anyall(n, seq[1:], e2, s2)

    def _comp(self, e, gens, env, st, ctx):
        """Eager evaluation of a comprehension: yields (list, env, st)."""
        if not gens:
            for v, e2, s2 in self.ev(e, env, st, ctx):
                yield ([v] if not isinstance(v, Raise) else v), e2, s2
            return
        g = gens[0]
        for it, e1, s1 in self.ev(g.iter, env, st, ctx):
            if isinstance(it, Raise):
                yield it, e1, s1
                continue
            it = s1.d(it) if isinstance(it, Ref) else it
            if isinstance(it, Registry):
                it = list(it.d)
            if isinstance(it, dict):
                it = list(it)
            if not isinstance(it, (list, tuple, range, frozenset, set)):
                raise Unsupported("comprehension over %r" % (it,))
            yield from self._comp_items(e, g, gens[1:], list(it), e1, s1,
                                        ctx)

    def _comp_items(self, e, g, rest, items, env, st, ctx):
        if not items:
            yield [], env, st
            return
        first, others = items[0], items[1:]
        e1, s1 = dict(env), st
        self.assign(g.target, first, e1, s1, ctx)
        if True:
            # conditions
            def conds(ifs, e_, s_):
                if not ifs:
                    yield True, e_, s_
                    return
                for b, e2, s2 in self.cond(ifs[0], e_, s_, ctx):
                    if isinstance(b, Raise) or not b:
                        yield b, e2, s2
                    else:
                        yield from conds(ifs[1:], e2, s2)
            for b, e2, s2 in conds(list(g.ifs), e1, s1):
                if isinstance(b, Raise):
                    yield b, e2, s2
                    continue
                if not b:
                    yield from self._comp_items(e, g, rest, others, e2, s2,
                                                ctx)
                    continue
                for head, e3, s3 in self._comp(e, rest, e2, s2, ctx):
                    if isinstance(head, Raise):
                        yield head, e3, s3
                        continue
                    for tail, e4, s4 in self._comp_items(
                            e, g, rest, others, e3, s3, ctx):
                        if isinstance(tail, Raise):
                            yield tail, e4, s4
                        else:
                            yield head + tail, e4, s4

    def isinst(self, v, t):
        if isinstance(t, tuple) and t and t[0] == "builtin":
            if t[1] == "int":
                return isinstance(v, (int, bool, AInt, ABool, IvInt, Sym))
            if t[1] == "str":
                return isinstance(v, str)
            if t[1] in ("tuple", "list"):
                return isinstance(v, (tuple, list)) and not (
                    v and v[0] in ("builtin", "nt", "map", "fn"))
            raise Unsupported("isinstance(.., %s)" % t[1])
        if isinstance(t, tuple) and t and t[0] == "nt":
            return isinstance(v, Obj) and v.cls is None
        if isinstance(t, tuple) and all(isinstance(x, (ClsRef, tuple))
                                        for x in t):
            return any(self.isinst(v, x) for x in t)
        if isinstance(t, ClsRef):
            if isinstance(v, Obj):
                return v.cls is not None and t.c in v.cls.mro
            if isinstance(v, AFrame):
                kinds = {"ForwardFrame": ("ForwardFrame", "Frame"),
                         "Frame": ("Frame",),
                         "BackwardFrame": ("BackwardFrame", "Frame")}
                return t.c.name in kinds.get(v.kind, ())
            if self.folder.is_enum(t.c):
                return False
            return False
        if isinstance(t, tuple) and t and t[0] == "ext":
            return False
        raise Unsupported("isinstance against %r" % (t,))

    def regget(self, reg, args, env, st):
        key = args[0]
        default = args[1] if len(args) > 1 else None
        if key is None:
            yield reg.d.get(None, default), env, st
            return
        if isinstance(key, int) or (isinstance(key, tuple) and all(
                isinstance(k, int) for k in key)):
            yield reg.d.get(key, default), env, st
            return
        comps = key if isinstance(key, tuple) else (key,)
        negs = []
        for k, v in reg.d.items():
            kc = k if isinstance(k, tuple) else (k,)
            if len(kc) != len(comps):
                continue
            pairs = []
            ok = True
            for a, b in zip(comps, kc):
                if b is None:
                    ok = False
                    break
                if isinstance(a, Sym):
                    pairs.append((("symv", a.n), b))
                elif isinstance(a, int):
                    if a != b:
                        ok = False
                        break
                elif isinstance(a, (AInt, ABool)):
                    ls = lanes_of(a)
                    bl = lanes_of(b, len(ls))
                    if len(bl) > len(ls):
                        ok = False
                        break
                    for x, y in zip(ls, bl):
                        if x in (0, 1):
                            if x != y:
                                ok = False
                                break
                        else:
                            pairs.append((x, y))
                    if not ok:
                        break
                else:
                    raise Unsupported("registry key component %r" % (a,))
            if not ok:
                continue
            e2, s2 = self.forkenv(env, st)
            good = True
            for lane, val in pairs:
                if not assume(s2, lane, val):
                    good = False
                    break
            negs.append(dict(pairs))
            if good:
                yield v, e2, s2
        e2, s2 = self.forkenv(env, st)
        s2.neg.extend(n for n in negs if n)
        if not any(not n for n in negs) and satisfiable(s2):
            yield default, e2, s2


def _concrete_key(x):
    return x is None or type(x) in (int, str, bool, bytes) or (
        isinstance(x, tuple) and all(_concrete_key(y) for y in x))


class Either:
    """A comparison on free symbolic lanes whose outcome is not determined:
    both branches are feasible."""

    def __init__(self, what):
        self.what = what

    def __repr__(self):
        return "Either(%s)" % self.what


class IvCmp:
    """Comparison of an interval-valued parameter with a constant: splits
    the interval."""

    def __init__(self, iv, op, k, neg=False):
        self.iv, self.op, self.k, self.neg = iv, op, k, neg

    def negate(self):
        return IvCmp(self.iv, self.op, self.k, not self.neg)

    def split(self, I, env, st):
        iv, k = self.iv, self.k
        lo, hi = iv.lo, iv.hi

        def sub(a, b):
            # intersect [lo,hi] with [a,b]
            na = a if lo is None else (lo if a is None else max(lo, a))
            nb = b if hi is None else (hi if b is None else min(hi, b))
            if na is not None and nb is not None and na > nb:
                return None
            return (na, nb)
        if self.op == "<":
            t, f = sub(None, k - 1), sub(k, None)
        elif self.op == "<=":
            t, f = sub(None, k), sub(k + 1, None)
        elif self.op == ">":
            t, f = sub(k + 1, None), sub(None, k)
        elif self.op == ">=":
            t, f = sub(k, None), sub(None, k - 1)
        elif self.op == "==":
            t = sub(k, k)
            f = (lo, hi)      # not representable: keep the whole interval
        else:
            raise Unsupported("interval op")
        for rng, val in ((t, True), (f, False)):
            if rng is None:
                continue
            e2, s2 = I.forkenv(env, st)
            new = IvInt(iv.name, rng[0], rng[1])
            _replace(e2, s2, iv, new)
            yield val ^ self.neg, e2, s2


class BitLen:
    """x.bit_length() of an interval-valued parameter x"""

    def __init__(self, iv):
        self.iv = iv

    def __repr__(self):
        return "BitLen(%r)" % (self.iv,)


class BitLenCmp:
    """x.bit_length() OP n: bit_length() > n  <=>  x >= 2**n or x <= -2**n
    (the magnitude, whatever the sign).  Splits the interval of x."""

    def __init__(self, iv, op, n, neg=False):
        self.iv, self.op, self.n, self.neg = iv, op, n, neg

    def negate(self):
        return BitLenCmp(self.iv, self.op, self.n, not self.neg)

    def split(self, I, env, st):
        # normalise to  bit_length() > m  (possibly negated)
        op, n, neg = self.op, self.n, self.neg
        if op == ">=":
            op, n = ">", n - 1
        elif op == "<":
            op, n, neg = ">", n - 1, not neg
        elif op == "<=":
            op, neg = ">", not neg
        if n < 0:
            yield True ^ neg, env, st          # bit_length() >= 0 always
            return
        k = 1 << n
        name = self.iv.name
        for t1, e1, s1 in IvCmp(self.iv, ">=", k).split(I, env, st):
            if t1:
                yield True ^ neg, e1, s1
                continue
            cur = s1.ivref.get(name, self.iv) if getattr(
                s1, "ivref", None) else self.iv
            for t2, e2, s2 in IvCmp(cur, "<=", -k).split(I, e1, s1):
                yield t2 ^ neg, e2, s2


def _sync_iv(env, st):
    """Caller's view after a call: interval refinements made by the callee
    on a parameter value apply to the same value in the caller."""
    if not st.ivref:
        return env
    env2 = None
    for k, v in env.items():
        if isinstance(v, IvInt):
            n = st.ivref.get(v.name)
            if n is not None and n is not v:
                if env2 is None:
                    env2 = dict(env)
                env2[k] = n
    return env2 if env2 is not None else env


def _replace(env, st, old, new):
    """The parameter `old.name` is now known to lie in `new`: every holder
    of that parameter's interval sees it (matched by the parameter's name -
    a forked environment holds copies, so identity is not enough)."""
    st.ivref[old.name] = new

    def same(v):
        return v is old or (isinstance(v, IvInt) and v.name == old.name)
    for k, v in list(env.items()):
        if same(v):
            env[k] = new
    for cell in st.heap.values():
        if isinstance(cell, Obj):
            for k, v in list(cell.f.items()):
                if same(v):
                    cell.f[k] = new


def iv_to_lanes(env, st):
    """Turn bounded interval parameters into symbolic lanes (after the
    validation guards have run)."""
    def conv(v):
        if isinstance(v, IvInt) and v.bounded():
            w = max(v.hi.bit_length(), 1)
            return AInt([("p", v.name, i) for i in range(w)])
        return v
    for k, v in list(env.items()):
        env[k] = conv(v)
    for cell in st.heap.values():
        if isinstance(cell, Obj):
            for k, v in list(cell.f.items()):
                cell.f[k] = conv(v)
