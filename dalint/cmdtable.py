"""Extraction of the command table (classes, opcodes, flags, registries) by
folding class attributes and interpreting the registration code; loader for
the hand-transcribed IEC tables in spec/iec62386_tables.txt."""
import os
import re

from .core import AnalysisError, VERIF
from .fold import Folder, UNKNOWN
from .front import ClassInfo
from .regexec import RegExec
from .seq import response_class_of

CODEC_MODS = ["dali.command", "dali.address", "dali.gear.general",
              "dali.gear.led", "dali.gear.emergency", "dali.gear.incandescent",
              "dali.gear.converter", "dali.gear.colour",
              "dali.device.general", "dali.device.pushbutton",
              "dali.device.occupancy", "dali.device.light"]

FAMILIES = ("_StandardCommand", "_ShortAddrSpecialCommand", "_SpecialCommand",
            "DAPC", "_StandardDeviceCommand", "_StandardInstanceCommand",
            "_SpecialDeviceCommand", "_Event", "_DeviceCommand",
            "_GearCommand")


class CmdRow:
    pass


def registries(world, folder=None):
    folder = folder or Folder(world)
    rx = RegExec(world, folder)
    rx.create_all([c for c in world.class_order if c.mod in CODEC_MODS])
    if rx.raised:
        raise AnalysisError("command registration raises: %s"
                            % rx.raised[:3])
    return rx


def family_of(c):
    for k in c.mro:
        if isinstance(k, ClassInfo) and k.name in FAMILIES:
            return k.name
    return None


def answer_kind(world, c):
    rc = response_class_of(world, c)
    if rc is None:
        return None
    names = [k.name for k in rc.mro if isinstance(k, ClassInfo)]
    return "YN" if "YesNoResponse" in names else "A8"


def extract(world, folder, rx):
    """[CmdRow] for every concrete command class (Command._commands)."""
    C = rx.obj(world.cls("dali.command.Command"))
    rows = []
    for o in C.ns["_commands"]:
        c = o.info
        r = CmdRow()
        r.cls = c
        r.name = c.name
        r.mod = c.mod
        r.family = family_of(c)
        for a in ("_cmdval", "_hasparam", "_opcode", "_addr", "_instance",
                  "devicetype", "sendtwice", "_framesize", "_instance_type"):
            v = folder.class_attr(c, a) if c.lookup(a) is not None else None
            setattr(r, a.lstrip("_"), None if v is UNKNOWN else v)
        r.answer = answer_kind(world, c)
        rows.append(r)
    return rows


def load_spec():
    """Parse spec/iec62386_tables.txt -> {section: [row dict]}"""
    path = os.path.join(VERIF, "spec", "iec62386_tables.txt")
    out = {}
    sec = None
    with open(path) as f:
        for line in f:
            line = line.split("#")[0].strip()
            if not line:
                continue
            m = re.match(r"\[(.+)\]$", line)
            if m:
                sec = m.group(1)
                out[sec] = []
                continue
            parts = line.split()
            code = int(parts[0], 0)
            flags = parts[2:]
            out[sec].append({
                "code": code, "name": parts[1],
                "twice": True if "T" in flags else (
                    None if "?T" in flags else False),
                "answer": "YN" if "YN" in flags else (
                    "A8" if "A8" in flags else None),
                "param": next((p for p in flags if p in ("P4", "P8", "PA")),
                              None)})
    return out
