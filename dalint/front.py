"""Front end: module namespaces, import/alias resolution, class table with C3
MRO, attribute lookup through the MRO.  Everything is derived from the AST of
/repo's current working tree."""
import ast

from .core import AnalysisError


class Binding:
    """What a name in a module namespace denotes."""
    __slots__ = ("kind", "value", "mod")
    # kind: 'module' (value = module name), 'class' (ClassInfo),
    #       'func' (FunctionDef, mod), 'expr' (ast expr, mod),
    #       'ext' (dotted external name)

    def __init__(self, kind, value, mod=None):
        self.kind, self.value, self.mod = kind, value, mod

    def __repr__(self):
        return "<B %s %r>" % (self.kind, getattr(self.value, "qname",
                                                 self.value))


class ClassInfo:
    def __init__(self, world, modname, node, outer=None):
        self.world = world
        self.mod = modname
        self.node = node
        self.name = node.name
        self.outer = outer
        self.qname = (outer.qname if outer else modname) + "." + node.name
        self.base_exprs = list(node.bases)
        self.bases = []          # ClassInfo or 'ext:<dotted>'
        self.mro = None
        self.metaclass_expr = None
        for kw in node.keywords:
            if kw.arg == "metaclass":
                self.metaclass_expr = kw.value
        self.attrs = {}          # name -> ast expr (last assignment wins)
        self.attr_order = []     # [(name, expr, stmt)] in definition order
        self.methods = {}        # name -> (kind, FunctionDef)
        self.nested = {}         # name -> ClassInfo
        self.body_other = []     # other statements in the class body
        for b in node.body:
            if isinstance(b, ast.Assign):
                for t in b.targets:
                    if isinstance(t, ast.Name):
                        self.attrs[t.id] = b.value
                        self.attr_order.append((t.id, b.value, b))
                    elif isinstance(t, ast.Tuple) and isinstance(
                            b.value, ast.Tuple) and len(t.elts) == len(
                                b.value.elts):
                        for tt, vv in zip(t.elts, b.value.elts):
                            if isinstance(tt, ast.Name):
                                self.attrs[tt.id] = vv
                                self.attr_order.append((tt.id, vv, b))
                    else:
                        self.body_other.append(b)
            elif isinstance(b, ast.AnnAssign) and isinstance(b.target,
                                                             ast.Name):
                if b.value is not None:
                    self.attrs[b.target.id] = b.value
                    self.attr_order.append((b.target.id, b.value, b))
            elif isinstance(b, (ast.FunctionDef, ast.AsyncFunctionDef)):
                kind = "inst"
                for d in b.decorator_list:
                    if isinstance(d, ast.Name) and d.id in (
                            "classmethod", "staticmethod", "property"):
                        kind = d.id
                    elif isinstance(d, ast.Attribute) and d.attr in (
                            "setter", "getter", "deleter"):
                        kind = "property_" + d.attr
                if kind.startswith("property_"):
                    self.methods[b.name + "#" + kind[9:]] = (kind, b)
                else:
                    self.methods[b.name] = (kind, b)
            elif isinstance(b, ast.ClassDef):
                pass  # nested, registered by World
            elif isinstance(b, ast.Expr) and isinstance(b.value, ast.Constant):
                pass  # docstring
            elif isinstance(b, ast.Pass):
                pass
            else:
                self.body_other.append(b)

    def __repr__(self):
        return "<Class %s>" % self.qname

    # -- lookup through the MRO -------------------------------------------
    def lookup(self, name):
        """Return (owner ClassInfo, kind, node) for attribute `name`:
        kind 'attr' -> node is an expr; 'class' -> ClassInfo;
        else method kind with FunctionDef.  None if not found in-repo."""
        for k in self.mro:
            if not isinstance(k, ClassInfo):
                continue
            if name in k.methods:
                return k, k.methods[name][0], k.methods[name][1]
            if name in k.attrs:
                return k, "attr", k.attrs[name]
            if name in k.nested:
                return k, "class", k.nested[name]
        return None

    def lookup_after(self, name, after):
        """super() lookup: first definition of name after class `after`."""
        seen = False
        for k in self.mro:
            if not isinstance(k, ClassInfo):
                continue
            if seen:
                if name in k.methods:
                    return k, k.methods[name][0], k.methods[name][1]
                if name in k.attrs:
                    return k, "attr", k.attrs[name]
            if k is after:
                seen = True
        return None

    def issub(self, other):
        return other in self.mro

    def has_ext_base(self, dotted_suffix):
        for k in self.mro:
            if isinstance(k, str) and k.endswith(dotted_suffix):
                return True
        return False

    @property
    def metaclass(self):
        for k in self.mro:
            if isinstance(k, ClassInfo) and k.metaclass_expr is not None:
                b = self.world.resolve(k.mod, k.metaclass_expr)
                if b and b.kind == "class":
                    return b.value
        return None

    def subclasses(self):
        return [c for c in self.world.class_order
                if c is not self and self in c.mro]


class World:
    def __init__(self, repo):
        self.repo = repo
        self.ns = {}            # modname -> {name: Binding}
        self.classes = {}       # qname -> ClassInfo
        self.class_order = []   # definition order within import order
        self.funcs = {}         # qname -> (modname, FunctionDef, ClassInfo|None)
        self._star = {}
        for name in repo.modules:
            self.ns[name] = {}
        self.import_order = self._import_order()
        for name in self.import_order:
            self._bind(name)
        for c in self.class_order:
            self._resolve_bases(c)
        for c in self.class_order:
            self._c3(c)

    # -- import order (a module's imports execute before its body) --------
    def _module_imports(self, modname):
        out = []
        m = self.repo.modules[modname]
        for n in m.tree.body:
            if isinstance(n, ast.Import):
                for a in n.names:
                    out.append(a.name)
            elif isinstance(n, ast.ImportFrom):
                base = self._abs_from(modname, n)
                out.append(base)
                for a in n.names:
                    out.append(base + "." + a.name)
        res = []
        for o in out:
            # importing a.b.c imports a, a.b, a.b.c
            parts = o.split(".")
            for i in range(1, len(parts) + 1):
                p = ".".join(parts[:i])
                if p in self.repo.modules and p not in res and p != modname:
                    res.append(p)
        return res

    def _abs_from(self, modname, n):
        if n.level == 0:
            return n.module or ""
        m = self.repo.modules[modname]
        parts = modname.split(".")
        if not m.is_package:
            parts = parts[:-1]
        if n.level > 1:
            parts = parts[:len(parts) - (n.level - 1)]
        return ".".join(parts + ([n.module] if n.module else []))

    def _import_order(self):
        order, state = [], {}

        def visit(m):
            if state.get(m):
                return
            state[m] = 1
            for dep in self._module_imports(m):
                visit(dep)
            order.append(m)
        for m in sorted(self.repo.modules):
            visit(m)
        return order

    # -- binding ------------------------------------------------------------
    def _bind(self, modname):
        ns = self.ns[modname]
        m = self.repo.modules[modname]
        self._bind_body(modname, m.tree.body, ns, None)

    def _bind_body(self, modname, body, ns, outer):
        for n in body:
            if isinstance(n, ast.Import):
                for a in n.names:
                    if a.asname:
                        ns[a.asname] = Binding("module", a.name)
                    else:
                        top = a.name.split(".")[0]
                        ns[top] = Binding("module", top)
            elif isinstance(n, ast.ImportFrom):
                base = self._abs_from(modname, n)
                for a in n.names:
                    if a.name == "*":
                        src = self.ns.get(base)
                        if src is not None:
                            for k, v in list(src.items()):
                                if not k.startswith("_"):
                                    ns[k] = v
                        continue
                    full = base + "." + a.name
                    if full in self.repo.modules:
                        ns[a.asname or a.name] = Binding("module", full)
                    elif base in self.ns and a.name in self.ns[base]:
                        ns[a.asname or a.name] = self.ns[base][a.name]
                    elif base in self.ns:
                        # name defined later (cyclic import) - lazy ref
                        ns[a.asname or a.name] = Binding(
                            "lazy", (base, a.name))
                    else:
                        ns[a.asname or a.name] = Binding("ext", full)
            elif isinstance(n, ast.ClassDef):
                c = ClassInfo(self, modname, n, outer)
                self.classes[c.qname] = c
                self.class_order.append(c)
                ns[n.name] = Binding("class", c)
                if outer is not None:
                    outer.nested[n.name] = c
                inner_ns = {}
                self._bind_body(modname, n.body, inner_ns, c)
                for (kind, fn) in c.methods.values():
                    self.funcs[c.qname + "." + fn.name] = (modname, fn, c)
            elif isinstance(n, (ast.FunctionDef, ast.AsyncFunctionDef)):
                if outer is None:
                    ns[n.name] = Binding("func", n, modname)
                    self.funcs[modname + "." + n.name] = (modname, n, None)
            elif isinstance(n, ast.Assign) and outer is None:
                for t in n.targets:
                    if isinstance(t, ast.Name):
                        ns[t.id] = Binding("expr", n.value, modname)
            elif isinstance(n, ast.AnnAssign) and outer is None:
                if isinstance(n.target, ast.Name) and n.value is not None:
                    ns[n.target.id] = Binding("expr", n.value, modname)
            elif isinstance(n, (ast.If, ast.Try)) and outer is None:
                # conditional imports / TYPE_CHECKING blocks
                for sub in ast.iter_child_nodes(n):
                    if isinstance(sub, ast.stmt):
                        self._bind_body(modname, [sub], ns, outer)
                    elif isinstance(sub, ast.ExceptHandler):
                        self._bind_body(modname, sub.body, ns, outer)

    # -- resolution ---------------------------------------------------------
    def lookup(self, modname, name, _depth=0):
        b = self.ns.get(modname, {}).get(name)
        if b is None:
            return None
        return self._deref(b, _depth)

    def _deref(self, b, _depth=0):
        if _depth > 20:
            return b
        if b.kind == "lazy":
            base, name = b.value
            r = self.lookup(base, name, _depth + 1)
            return r if r is not None else Binding("ext", base + "." + name)
        if b.kind == "expr":
            v = b.value
            if isinstance(v, (ast.Name, ast.Attribute)):
                r = self.resolve(b.mod, v, _depth + 1)
                if r is not None and r.kind in ("class", "func", "module",
                                                "method", "ext"):
                    return r
        return b

    def resolve(self, modname, expr, _depth=0):
        """Resolve a Name / Attribute chain in module scope to a Binding.
        Attribute on a class yields Binding('method'|'classattr')."""
        if isinstance(expr, ast.Name):
            return self.lookup(modname, expr.id, _depth)
        if isinstance(expr, ast.Attribute):
            base = self.resolve(modname, expr.value, _depth + 1)
            if base is None:
                return None
            if base.kind == "module":
                full = base.value + "." + expr.attr
                if full in self.repo.modules:
                    return Binding("module", full)
                if base.value in self.ns:
                    return self.lookup(base.value, expr.attr, _depth + 1)
                return Binding("ext", full)
            if base.kind == "class":
                r = base.value.lookup(expr.attr)
                if r is None:
                    return None
                owner, kind, node = r
                if kind == "class":
                    return Binding("class", node)
                if kind == "attr":
                    return Binding("classattr", (owner, expr.attr, node),
                                   owner.mod)
                return Binding("method", (owner, kind, node), owner.mod)
            if base.kind == "ext":
                return Binding("ext", base.value + "." + expr.attr)
        return None

    def resolve_class(self, modname, expr):
        b = self.resolve(modname, expr)
        if b is not None and b.kind == "class":
            return b.value
        return None

    def _resolve_bases(self, c):
        for be in c.base_exprs:
            b = self.resolve(c.mod, be)
            if b is None and c.outer is not None and isinstance(be, ast.Name):
                # sibling nested class
                sib = c.outer.nested.get(be.id)
                if sib is not None:
                    b = Binding("class", sib)
            if b is not None and b.kind == "class":
                c.bases.append(b.value)
            elif b is not None and b.kind == "ext":
                c.bases.append("ext:" + b.value)
            elif isinstance(be, ast.Name) and be.id in (
                    "object", "type", "Exception", "int", "str", "dict",
                    "list", "tuple", "bytes", "BaseException"):
                c.bases.append("ext:builtins." + be.id)
            else:
                c.bases.append("ext:?" + ast.unparse(be))

    def _c3(self, c):
        if c.mro is not None:
            return c.mro
        seqs = []
        for b in c.bases:
            if isinstance(b, ClassInfo):
                seqs.append(list(self._c3(b)))
            else:
                seqs.append([b])
        seqs.append(list(c.bases))
        res = [c]
        while any(seqs):
            for q in seqs:
                if not q:
                    continue
                h = q[0]
                if not any(h in r[1:] for r in seqs if r):
                    break
            else:
                raise AnalysisError("inconsistent MRO for %s" % c.qname)
            res.append(h)
            for q in seqs:
                if q and q[0] is h or (q and isinstance(h, str)
                                       and q[0] == h):
                    q.pop(0)
        c.mro = res
        return res

    # -- convenience -----------------------------------------------------------
    def cls(self, qname):
        c = self.classes.get(qname)
        if c is None:
            raise AnalysisError("anchor class %s vanished" % qname)
        return c

    def func(self, qname):
        f = self.funcs.get(qname)
        if f is None:
            raise AnalysisError("anchor function %s vanished" % qname)
        return f

    def method(self, cls_qname, name):
        c = self.cls(cls_qname)
        r = c.lookup(name)
        if r is None or r[1] in ("attr", "class"):
            raise AnalysisError("anchor method %s.%s vanished"
                                % (cls_qname, name))
        return r

    def classes_in(self, modname):
        return [c for c in self.class_order if c.mod == modname]


def fn_qname(world, modname, fn):
    """Qualified name of a FunctionDef node (walks _parent links)."""
    parts = [fn.name]
    p = getattr(fn, "_parent", None)
    while p is not None:
        if isinstance(p, (ast.ClassDef, ast.FunctionDef,
                          ast.AsyncFunctionDef)):
            parts.append(p.name)
        p = getattr(p, "_parent", None)
    return modname + "." + ".".join(reversed(parts))


def is_generator(fn):
    for n in walk_local(fn):
        if isinstance(n, (ast.Yield, ast.YieldFrom)):
            return True
    return False


def walk_local(fn):
    """ast.walk over a function body without entering nested defs/lambdas."""
    stack = list(fn.body) if hasattr(fn, "body") and isinstance(
        fn.body, list) else [fn]
    while stack:
        n = stack.pop()
        yield n
        for ch in ast.iter_child_nodes(n):
            if isinstance(ch, (ast.FunctionDef, ast.AsyncFunctionDef,
                               ast.ClassDef, ast.Lambda)):
                continue
            stack.append(ch)
