"""Guard predicates as formulas: NNF/DNF over difference-bound (zone) atoms
and opaque propositional atoms, with an exact equivalence / implication test.

A guard such as ``key < 0 or key >= self._bits`` or its rewrite
``not 0 <= key < len(self)`` is turned into a set of conjunctions of atoms

    ("le", x, y, c)        x - y + c <= 0     (x or y may be the zero symbol "0")
    ("p", text, polarity)  an opaque proposition (isinstance(..), membership ..)

and two guards are compared by deciding satisfiability of  A and not B  (and
vice versa) under a hypothesis: conjunctions of difference constraints over
the integers are decided exactly by negative-cycle detection (Bellman-Ford on
the constraint graph), opaque propositions are treated propositionally.  So
behaviour-preserving rewrites of a guard are recognised as the same guard,
and a changed bound is reported with the region that is no longer (or newly)
rejected.  No code is executed and no values are enumerated."""
import ast
import itertools

from .core import AnalysisError, unparse
from .lanes import Lin


class Unrecognised(AnalysisError):
    pass


ZERO = "0"


def _atom_from_lin(l):
    """Lin <= 0 as a difference atom; only unit coefficients on at most one
    positive and one negative symbol."""
    pos = [s for s, v in l.c.items() if v == 1]
    neg = [s for s, v in l.c.items() if v == -1]
    if len(pos) + len(neg) != len(l.c) or len(pos) > 1 or len(neg) > 1:
        raise Unrecognised("not a difference constraint: %r <= 0" % (l,))
    return ("le", pos[0] if pos else ZERO, neg[0] if neg else ZERO, l.k)


def neg_atom(a):
    if a[0] == "le":
        # not (x - y + c <= 0)  <=>  y - x - c + 1 <= 0
        return ("le", a[2], a[1], 1 - a[3])
    return ("p", a[1], not a[2])


class Parser:
    """ast test -> DNF (frozenset of frozensets of atoms)."""

    def __init__(self, lin, prop=None):
        self.lin = lin            # ast expr -> Lin or None
        self.prop = prop          # ast expr -> canonical text or None

    # formula trees: ("and", [..]) ("or", [..]) ("not", f) ("atom", a)
    def tree(self, e):
        if isinstance(e, ast.BoolOp):
            return ("and" if isinstance(e.op, ast.And) else "or",
                    [self.tree(v) for v in e.values])
        if isinstance(e, ast.UnaryOp) and isinstance(e.op, ast.Not):
            return ("not", self.tree(e.operand))
        if isinstance(e, ast.Constant) and isinstance(e.value, bool):
            return ("and", []) if e.value else ("or", [])
        if isinstance(e, ast.Compare):
            parts, left = [], e.left
            for op, right in zip(e.ops, e.comparators):
                parts.append(self.cmp(left, op, right, e))
                left = right
            return parts[0] if len(parts) == 1 else ("and", parts)
        return self.opaque(e)

    def opaque(self, e):
        t = self.prop(e) if self.prop else None
        if t is None:
            t = unparse(e, 200)
        return ("atom", ("p", t, True))

    def cmp(self, l, op, r, whole):
        a, b = self.lin(l), self.lin(r)
        if a is not None and b is not None and isinstance(
                op, (ast.Lt, ast.LtE, ast.Gt, ast.GtE, ast.Eq, ast.NotEq)):
            d = a - b
            if isinstance(op, ast.Lt):
                return ("atom", _atom_from_lin(d + 1))
            if isinstance(op, ast.LtE):
                return ("atom", _atom_from_lin(d))
            if isinstance(op, ast.Gt):
                return ("atom", _atom_from_lin(b - a + 1))
            if isinstance(op, ast.GtE):
                return ("atom", _atom_from_lin(b - a))
            eq = ("and", [("atom", _atom_from_lin(d)),
                          ("atom", _atom_from_lin(b - a))])
            return eq if isinstance(op, ast.Eq) else ("not", eq)
        if isinstance(op, (ast.In, ast.NotIn)) and a is not None and \
                isinstance(r, ast.Call) and unparse(r.func) == "range" and \
                1 <= len(r.args) <= 2 and not r.keywords:
            lo = Lin.const(0) if len(r.args) == 1 else self.lin(r.args[0])
            hi = self.lin(r.args[-1])
            if lo is not None and hi is not None:
                f = ("and", [("atom", _atom_from_lin(lo - a)),
                             ("atom", _atom_from_lin(a - hi + 1))])
                return f if isinstance(op, ast.In) else ("not", f)
        if isinstance(op, (ast.In, ast.NotIn)) and isinstance(
                r, (ast.Tuple, ast.List, ast.Set)):
            f = ("or", [self.cmp(l, ast.Eq(), x, whole) for x in r.elts])
            return f if isinstance(op, ast.In) else ("not", f)
        if isinstance(op, (ast.Eq, ast.NotEq, ast.Is, ast.IsNot)):
            x, y = sorted([self._txt(l), self._txt(r)])
            f = ("atom", ("p", "%s == %s" % (x, y), True))
            return f if isinstance(op, (ast.Eq, ast.Is)) else ("not", f)
        fake = ast.Compare(l, [op], [r])
        return self.opaque(ast.copy_location(fake, whole))

    def _txt(self, e):
        t = self.prop(e) if self.prop else None
        return t if t is not None else unparse(e, 200)

    def dnf(self, e):
        return dnf(self.tree(e))


def nnf(t, neg=False):
    k = t[0]
    if k == "atom":
        return ("atom", neg_atom(t[1]) if neg else t[1])
    if k == "not":
        return nnf(t[1], not neg)
    kk = {"and": "or", "or": "and"}[k] if neg else k
    return (kk, [nnf(x, neg) for x in t[1]])


def dnf(t):
    t = nnf(t)

    def go(t):
        if t[0] == "atom":
            return [frozenset([t[1]])]
        if t[0] == "or":
            out = []
            for x in t[1]:
                out += go(x)
            return out
        out = [frozenset()]
        for x in t[1]:
            sub = go(x)
            out = [a | b for a in out for b in sub]
            if len(out) > 4096:
                raise Unrecognised("guard too large to normalise")
        return out
    return frozenset(c for c in go(t) if sat(c))


def sat(conj, hyp=()):
    """Is the conjunction of atoms (plus hypothesis atoms) satisfiable over
    the integers?  Difference constraints: negative-cycle test."""
    atoms = list(conj) + list(hyp)
    props = {}
    for a in atoms:
        if a[0] == "p":
            if props.setdefault(a[1], a[2]) != a[2]:
                return False
    edges = []     # x - y <= -c   ==> edge y -> x with weight -c
    nodes = {ZERO}
    for a in atoms:
        if a[0] == "le":
            _, x, y, c = a
            nodes.update((x, y))
            if x == y:
                if c > 0:
                    return False
                continue
            edges.append((y, x, -c))
    dist = {n: 0 for n in nodes}
    for _ in range(len(nodes)):
        changed = False
        for (u, v, w) in edges:
            if dist[u] + w < dist[v]:
                dist[v] = dist[u] + w
                changed = True
        if not changed:
            return True
    return False


def neg_dnf(d):
    """DNF of the negation of a DNF."""
    out = [frozenset()]
    for conj in d:
        if not conj:
            return frozenset()          # not True
        out = [a | frozenset([neg_atom(x)]) for a in out for x in conj]
        out = [c for c in set(out) if sat(c)]
        if len(out) > 4096:
            raise Unrecognised("guard too large to negate")
    return frozenset(out)


def implies(a, b, hyp=()):
    """a => b under hyp; returns (True, None) or (False, witness conj).
    Decided by searching for a model of  ca and not b  for each conjunction
    ca of a: not b is a conjunction of clauses (one negated atom from every
    conjunction of b), explored depth-first with the difference-constraint
    satisfiability test pruning partial choices."""
    clauses = []
    for cb in b:
        if not cb:
            return True, None           # b contains True
        clauses.append(sorted((neg_atom(x) for x in cb), key=repr))
    # cheap clauses first
    clauses.sort(key=len)
    budget = [200000]

    def search(cur, i):
        budget[0] -= 1
        if budget[0] < 0:
            raise Unrecognised("guard comparison too large")
        if i == len(clauses):
            return cur
        cl = clauses[i]
        if any(x in cur for x in cl):
            return search(cur, i + 1)
        for x in cl:
            if neg_atom(x) in cur:
                continue
            nxt = cur | {x}
            if sat(nxt, hyp):
                r = search(nxt, i + 1)
                if r is not None:
                    return r
        return None
    for ca in a:
        if not sat(ca, hyp):
            continue
        w = search(frozenset(ca), 0)
        if w is not None:
            return False, w
    return True, None


def equivalent(a, b, hyp=()):
    ok, w = implies(a, b, hyp)
    if not ok:
        return False, ("only the first holds when", w)
    ok, w = implies(b, a, hyp)
    if not ok:
        return False, ("only the second holds when", w)
    return True, None


def union(*ds):
    out = set()
    for d in ds:
        out |= set(d)
    return frozenset(out)


def show(d):
    def at(a):
        if a[0] == "p":
            return a[1] if a[2] else "not (%s)" % a[1]
        _, x, y, c = a
        # x - y + c <= 0
        if y == ZERO:
            return "%s <= %d" % (x, -c)
        if x == ZERO:
            return "%s >= %d" % (y, c)
        return "%s - %s <= %d" % (x, y, -c)
    if isinstance(d, frozenset) and d and all(isinstance(x, tuple)
                                                for x in d):
        return " and ".join(sorted(at(a) for a in d))
    return " or ".join(sorted("(" + " and ".join(sorted(at(a) for a in c))
                              + ")" for c in d)) or "False"


def lin_of(symmap):
    """Build an ast -> Lin function.  symmap: canonical text -> symbol; the
    expression `len(self)` is read as self._bits."""
    def lin(e):
        if isinstance(e, ast.Constant) and isinstance(e.value, int) and \
                not isinstance(e.value, bool):
            return Lin.const(e.value)
        t = unparse(e, 200)
        if t in symmap:
            return Lin.sym(symmap[t])
        if isinstance(e, ast.UnaryOp) and isinstance(e.op, ast.USub):
            v = lin(e.operand)
            return None if v is None else Lin.const(0) - v
        if isinstance(e, ast.BinOp) and isinstance(e.op, (ast.Add, ast.Sub)):
            a, b = lin(e.left), lin(e.right)
            if a is None or b is None:
                return None
            return a + b if isinstance(e.op, ast.Add) else a - b
        return None
    return lin


# ---------------------------------------------------------------------------
# integer expressions in one width variable n, decided for every n by a
# residue split n = m*q + r
class QLin:
    """a*q + b for a symbolic q >= 0 (or q >= 1 when r == 0 is excluded)."""
    __slots__ = ("a", "b")

    def __init__(self, a, b):
        self.a, self.b = a, b

    def __eq__(self, o):
        return isinstance(o, QLin) and (self.a, self.b) == (o.a, o.b)

    def __repr__(self):
        return "%d*q%+d" % (self.a, self.b)


def residue_eval(e, names, m, r):
    """Evaluate integer expression e with every name in `names` standing for
    n = m*q + r; result QLin.  Supports + - * // % by constants, unary minus,
    conditional expressions on the truth of such terms, comparisons with
    constants, math.ceil(x / k), divmod-free code."""
    def ev(e):
        if isinstance(e, ast.Constant) and isinstance(e.value, int):
            return QLin(0, int(e.value))
        if unparse(e, 200) in names:
            return QLin(m, r)
        if isinstance(e, ast.Subscript) and isinstance(
                e.value, ast.Call) and unparse(e.value.func) == "divmod" \
                and len(e.value.args) == 2 and isinstance(
                    e.slice, ast.Constant) and e.slice.value in (0, 1):
            return ev(ast.BinOp(e.value.args[0], ast.FloorDiv()
                                if e.slice.value == 0 else ast.Mod(),
                                e.value.args[1]))
        if isinstance(e, ast.UnaryOp) and isinstance(e.op, ast.USub):
            v = ev(e.operand)
            return QLin(-v.a, -v.b)
        if isinstance(e, ast.UnaryOp) and isinstance(e.op, ast.Not):
            return QLin(0, int(not truth(ev(e.operand))))
        if isinstance(e, ast.Call) and unparse(e.func) in ("int", "bool") \
                and len(e.args) == 1:
            v = ev(e.args[0])
            return v if unparse(e.func) == "int" else QLin(0, int(truth(v)))
        if isinstance(e, ast.Call) and unparse(e.func) in (
                "math.ceil", "ceil") and len(e.args) == 1 and isinstance(
                    e.args[0], ast.BinOp) and isinstance(
                        e.args[0].op, ast.Div):
            x, k = ev(e.args[0].left), ev(e.args[0].right)
            if k.a == 0 and k.b > 0:
                return neg(floordiv(neg(x), k.b))
        if isinstance(e, ast.BinOp):
            if isinstance(e.op, (ast.Add, ast.Sub)):
                x, y = ev(e.left), ev(e.right)
                s = 1 if isinstance(e.op, ast.Add) else -1
                return QLin(x.a + s * y.a, x.b + s * y.b)
            if isinstance(e.op, ast.Mult):
                x, y = ev(e.left), ev(e.right)
                if x.a == 0:
                    return QLin(x.b * y.a, x.b * y.b)
                if y.a == 0:
                    return QLin(y.b * x.a, y.b * x.b)
            if isinstance(e.op, (ast.FloorDiv, ast.Mod, ast.RShift,
                                 ast.BitAnd)):
                x, y = ev(e.left), ev(e.right)
                if y.a == 0 and isinstance(e.op, ast.RShift) and y.b >= 0:
                    return floordiv(x, 1 << y.b)
                if y.a == 0 and isinstance(e.op, ast.BitAnd) and \
                        y.b >= 0 and (y.b + 1) & y.b == 0:
                    return mod(x, y.b + 1)
                if y.a == 0 and y.b > 0 and isinstance(e.op, ast.FloorDiv):
                    return floordiv(x, y.b)
                if y.a == 0 and y.b > 0 and isinstance(e.op, ast.Mod):
                    return mod(x, y.b)
        if isinstance(e, ast.IfExp):
            return ev(e.body) if truth(ev(e.test)) else ev(e.orelse)
        if isinstance(e, ast.Compare) and len(e.ops) == 1:
            x, y = ev(e.left), ev(e.comparators[0])
            if x.a == 0 and y.a == 0:
                op = e.ops[0]
                res = {ast.Eq: x.b == y.b, ast.NotEq: x.b != y.b,
                       ast.Lt: x.b < y.b, ast.LtE: x.b <= y.b,
                       ast.Gt: x.b > y.b, ast.GtE: x.b >= y.b}.get(type(op))
                if res is not None:
                    return QLin(0, int(res))
        raise Unrecognised("width expression `%s` is outside the supported "
                           "forms" % unparse(e, 120))

    def neg(x):
        return QLin(-x.a, -x.b)

    def floordiv(x, k):
        if x.a % k:
            raise Unrecognised("division does not split on the residue")
        return QLin(x.a // k, x.b // k)

    def mod(x, k):
        if x.a % k:
            raise Unrecognised("modulo does not split on the residue")
        return QLin(0, x.b % k)

    def truth(x):
        if x.a != 0:
            raise Unrecognised("truth of a term that depends on q")
        return x.b != 0
    return ev(e)
