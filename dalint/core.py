"""Core: repository loader, run bookkeeping (obligations, findings, floors),
known-findings matching, evidence writer.

Exit codes (DESIGN.md section 1, ground rule 2):
  0  every obligation discharged (known findings are listed, not alarms)
  1  + "VIOLATION property=<id> replay=<path>"  a named construct breaks a rule
  2  + "ANALYSIS-ERROR ..."  anchor vanished / unsupported construct / floor
"""
import ast
import hashlib
import json
import os
import sys
import time

VERIF = os.path.dirname(os.path.dirname(os.path.abspath(__file__)))


class AnalysisError(Exception):
    """The analysis cannot reach a verdict (never a silent pass)."""


class Module:
    def __init__(self, name, path, relpath, src):
        self.name = name
        self.path = path
        self.relpath = relpath
        self.src = src
        self.sha256 = hashlib.sha256(src.encode()).hexdigest()
        try:
            self.tree = ast.parse(src, filename=path)
        except SyntaxError as e:
            raise AnalysisError("%s does not parse: %s" % (relpath, e))
        from .desugar import desugar
        desugar(self.tree)
        for node in ast.walk(self.tree):
            for ch in ast.iter_child_nodes(node):
                if not isinstance(ch, ast.expr_context):
                    ch._parent = node
        self.tree._parent = None
        self.is_package = os.path.basename(path) == "__init__.py"


class Repo:
    """All non-test modules under <root>/dali, parsed."""

    def __init__(self, root):
        self.root = os.path.abspath(root)
        self.modules = {}
        base = os.path.join(self.root, "dali")
        if not os.path.isdir(base):
            raise AnalysisError("no dali package under %s" % self.root)
        for dirpath, dirnames, filenames in os.walk(base):
            dirnames[:] = sorted(d for d in dirnames
                                 if d not in ("tests", "__pycache__"))
            for fn in sorted(filenames):
                if not fn.endswith(".py"):
                    continue
                path = os.path.join(dirpath, fn)
                rel = os.path.relpath(path, self.root)
                parts = rel[:-3].split(os.sep)
                if parts[-1] == "__init__":
                    parts = parts[:-1]
                name = ".".join(parts)
                with open(path, encoding="utf-8") as f:
                    src = f.read()
                self.modules[name] = Module(name, path, rel, src)

    def mod(self, name):
        m = self.modules.get(name)
        if m is None:
            raise AnalysisError("anchor module %s vanished" % name)
        return m

    def digest(self, names=None):
        h = hashlib.sha256()
        for n in sorted(names or self.modules):
            h.update(n.encode())
            h.update(self.modules[n].sha256.encode())
        return h.hexdigest()


def unparse(node, limit=160):
    try:
        s = ast.unparse(node)
    except Exception:
        s = "<%s>" % type(node).__name__
    s = " ".join(s.split())
    return s if len(s) <= limit else s[:limit - 3] + "..."


class Finding:
    def __init__(self, rule, construct, message, where=None):
        self.rule = rule
        self.construct = construct
        self.message = message
        self.where = where

    @property
    def key(self):
        return "%s %s" % (self.rule, self.construct)

    def as_dict(self):
        return {"rule": self.rule, "construct": self.construct,
                "key": self.key, "message": self.message,
                "where": self.where}


class Run:
    """Bookkeeping of one property check."""

    def __init__(self, pid, tier, repo_root):
        self.pid = pid
        self.tier = tier
        self.repo_root = repo_root
        self.t0 = time.time()
        self.obligations = 0
        self.discharged = 0
        self.evaluations = 0
        self.findings = []
        self.samples = []
        self.rules = {}          # rule -> {"sites": n, "ok": n, "desc": str}
        self.analysed = {}       # free-form: what was analysed
        self.notes = []
        self.assumptions = []
        self.explanation = ""
        self.exhaustive = False
        self._distinct = set()
        self.info = []
        self.level = "other"
        self.selftest = None
        self.deferred = []       # AnalysisErrors of rules run with attempt()

    # -- recording ---------------------------------------------------------
    def rule(self, rule, desc):
        self.rules.setdefault(rule, {"sites": 0, "ok": 0, "desc": desc})

    def ob(self, rule, construct, ok, message="", where=None, sample=None,
           trivial=False):
        """Record one obligation (rule instantiated on one construct)."""
        r = self.rules.setdefault(rule, {"sites": 0, "ok": 0, "desc": ""})
        r["sites"] += 1
        self.obligations += 1
        self.evaluations += 1
        if not trivial:
            self._distinct.add((rule, construct))
        if ok:
            r["ok"] += 1
            self.discharged += 1
        else:
            # one finding per (rule, construct)
            if not any(f.rule == rule and f.construct == construct
                       for f in self.findings):
                self.findings.append(Finding(rule, construct, message, where))
        if sample is not None and len(self.samples) < 12:
            self.samples.append(sample)
        return ok

    def attempt(self, fn, *args, **kw):
        """Run one rule; an AnalysisError (the rule cannot read a construct)
        is kept until the other rules have run: it ends the check with exit
        2 unless another rule has established a violation."""
        try:
            return fn(*args, **kw)
        except AnalysisError as e:
            self.deferred.append(str(e))
            return None

    def count(self, n=1):
        self.evaluations += n

    def sample(self, s, force=False):
        if force or len(self.samples) < 12:
            self.samples.append(s)

    def floor(self, what, count, minimum, defer=False):
        """A rule matching fewer sites than confirmed by hand must not pass.
        defer=True: the shortfall is kept like an attempt() error - the
        remaining rules run and a violation they establish (the table entry
        that is now missing) is what the check reports."""
        self.analysed[what] = count
        if count < minimum and defer:
            self.deferred.append(
                "floor: %s = %d, below the %d confirmed on the pinned tree"
                % (what, count, minimum))
            return
        if count < minimum:
            raise AnalysisError(
                "floor: %s = %d, below the %d confirmed on the pinned tree "
                "(an anchor vanished or an idiom is no longer recognised)"
                % (what, count, minimum))

    def note(self, s):
        self.info.append(s)


def where(mod, node):
    return "%s:%s" % (mod.relpath if hasattr(mod, "relpath") else mod,
                      getattr(node, "lineno", "?"))


# ---------------------------------------------------------------------------
def load_known():
    p = os.path.join(VERIF, "known_findings.json")
    if not os.path.exists(p):
        return {"known": [], "fixed": []}
    with open(p) as f:
        return json.load(f)


def finish(run, write_evidence=True):
    """Print the report, write evidence, return the exit code."""
    known = load_known()
    kmap = {(k["property"], k["key"]): k for k in known.get("known", [])}
    new, listed = [], []
    for f in run.findings:
        k = kmap.get((run.pid, f.key))
        (listed if k else new).append(f)
    wall = time.time() - run.t0
    print("== %s tier=%s repo=%s" % (run.pid, run.tier, run.repo_root))
    for rule, r in sorted(run.rules.items()):
        print("   rule %-18s sites=%-5d ok=%-5d %s"
              % (rule, r["sites"], r["ok"], r["desc"]))
    for k, v in sorted(run.analysed.items()):
        print("   analysed %s = %s" % (k, v))
    for s in run.info:
        print("   info: %s" % s)
    for f in listed:
        print("KNOWN-FINDING: property=%s %s -- %s (%s)"
              % (run.pid, f.key, f.message, f.where))
    # stale known findings are only noted (never an alarm, never removed here)
    for (pid, key), k in kmap.items():
        if pid == run.pid and not any(f.key == key for f in run.findings):
            print("   note: listed known finding no longer reported: %s" % key)
    st = run.selftest
    if st:
        print("   selftest: %d/%d mutants reported, %d/%d twins silent, "
              "%d inapplicable on this tree"
              % (st["mutants_fired"], st["mutants"], st["twins_silent"],
                 st["twins"], len(st["inapplicable"])))
        for m in st["misses"]:
            print("   SELFTEST-MISS property=%s %s" % (run.pid, m))
        for m in st.get("limits", []):
            print("   SELFTEST-LIMIT property=%s %s" % (run.pid, m))
    replay = None
    if new:
        outdir = os.path.join(VERIF, "out", "violations")
        os.makedirs(outdir, exist_ok=True)
        replay = os.path.join(outdir, "%s.json" % run.pid)
        with open(replay, "w") as fh:
            json.dump({"property": run.pid, "repo": run.repo_root,
                       "violations": [f.as_dict() for f in new]}, fh, indent=1)
        for f in new:
            print("   violation: [%s] %s -- %s (%s)"
                  % (f.rule, f.construct, f.message, f.where))
        print("VIOLATION property=%s replay=%s" % (run.pid, replay))
    if write_evidence:
        ev = {
            "property_id": run.pid,
            "tier": run.tier,
            "seed": int(os.environ.get("VERIF_SEED", "0") or 0),
            "level": run.level,
            "coverage": {
                "explanation": run.explanation,
                "obligations": run.obligations,
                "discharged": run.discharged + len(listed),
                "evaluations": max(run.evaluations, 1),
                "distinct_nontrivial": len(run._distinct),
                "rule": "one obligation = one rule instantiated on one "
                        "construct discovered in /repo's current source; "
                        "distinct = distinct (rule, construct) pairs with a "
                        "non-trivial obligation",
                "samples": run.samples[:12] or ["(none)"],
                "exhaustive": run.exhaustive,
                "rules": run.rules,
                "analysed": run.analysed,
                "known_findings_reported": [f.key for f in listed],
                "selftest": st or "not run in this tier",
                "new_violations": [f.as_dict() for f in new],
                "checker_cmd": "/venv/bin/python -m dalint check %s --tier %s"
                               % (run.pid, run.tier),
                "trusted_base": ["CPython ast module", "dalint analysers",
                                 "spec/ transcriptions"],
            },
            "assumptions": run.assumptions,
            "wall_s": round(wall, 3),
            "violations": len(new),
        }
        evdir = os.path.join(VERIF, "evidence")
        os.makedirs(evdir, exist_ok=True)
        with open(os.path.join(evdir, "%s.json" % run.pid), "w") as fh:
            json.dump(ev, fh, indent=1, sort_keys=True, default=str)
    print("== %s: %d obligations, %d discharged, %d known finding(s), "
          "%d new violation(s), %.2fs"
          % (run.pid, run.obligations, run.discharged, len(listed), len(new),
             wall))
    return 1 if new else 0
