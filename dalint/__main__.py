import sys
from .cli import main
sys.exit(main())
