"""Abstract interpreter for Response classes over the three-point outcome
domain {None, Clean, Err} x (subset of byte values 0..255).

A path carries the subset of backward-frame byte values for which it is
taken; comparisons of the byte with constants, enum membership and dict
membership split the subset - individual values are never enumerated other
than by the code's own comparisons.  Exceptions are tracked by class name and
matched against *evaluated* except-clause expressions (so
`except A or B` catches A only)."""
import ast

from .core import AnalysisError, unparse
from .fold import Folder, UNKNOWN, ClassRef, EnumMember
from .front import ClassInfo

ALL_BYTES = frozenset(range(256))

BUILTIN_EXC_BASES = {
    "BaseException": None, "Exception": "BaseException",
    "ValueError": "Exception", "TypeError": "Exception",
    "AttributeError": "Exception", "KeyError": "LookupError",
    "IndexError": "LookupError", "LookupError": "Exception",
    "OverflowError": "ArithmeticError", "ArithmeticError": "Exception",
    "ZeroDivisionError": "ArithmeticError", "NotImplementedError":
    "RuntimeError", "RuntimeError": "Exception", "OSError": "Exception",
    "AssertionError": "Exception", "StopIteration": "Exception",
    "UnicodeDecodeError": "ValueError",
}


class V:
    """Abstract value."""
    __slots__ = ("kind", "val")

    def __init__(self, kind, val=None):
        self.kind, self.val = kind, val

    def __repr__(self):
        if self.kind == "const":
            return "const(%r)" % (self.val,)
        return self.kind if self.val is None else "%s(%s)" % (
            self.kind, self.val)

    def __eq__(self, o):
        return isinstance(o, V) and o.kind == self.kind and o.val == self.val

    def __hash__(self):
        return hash((self.kind, repr(self.val)))


NONE = V("const", None)
TRUE = V("const", True)
FALSE = V("const", False)
FRAME = V("frame")          # the backward frame passed to the constructor
BYTE = V("byte")            # frame.as_integer (subset held by the path)
STR = V("str")              # some string
INT = V("int")              # some integer (derived)
BOOLV = V("bool")           # some boolean
ENUMV = V("enum")           # enumerator(byte), byte a member
LISTV = V("list")
UNK = V("unknown")
SELF = V("self")


class Raised(Exception):
    def __init__(self, exc):
        self.exc = exc


class Path:
    __slots__ = ("bytes", "env")

    def __init__(self, bytes_, env):
        self.bytes = bytes_
        self.env = env

    def fork(self, bytes_=None):
        return Path(self.bytes if bytes_ is None else bytes_, dict(self.env))


def _strnum_clash(op, l, r):
    """True when `l op r` combines a str with a number in a way Python
    rejects with TypeError (str * float, str + int, str - x, ...)."""
    def is_str(v):
        return v.kind == "str" or (v.kind == "const" and isinstance(v.val,
                                                                   str))

    def num(v):
        if v.kind in ("byte", "int", "enum", "bfun"):
            return int
        if v.kind == "const" and isinstance(v.val, (int, float)) and \
                not isinstance(v.val, bool):
            return type(v.val)
        return None
    if is_str(l) and num(r) is not None:
        return not (isinstance(op, ast.Mult) and num(r) is int)
    if is_str(r) and num(l) is not None:
        return not (isinstance(op, ast.Mult) and num(l) is int)
    return False


class Outcome:
    """Result of running a piece of code on one path."""
    __slots__ = ("kind", "val", "bytes", "trail", "facts")

    def __init__(self, kind, val, bytes_, trail=(), facts=None):
        self.kind, self.val, self.bytes, self.trail = kind, val, bytes_, trail
        self.facts = facts

    def __repr__(self):
        return "<%s %r on %s>" % (self.kind, self.val, brief_bytes(
            self.bytes))


def brief_bytes(bs):
    if bs is None:
        return "-"
    bs = sorted(bs)
    if not bs:
        return "{}"
    runs = []
    s = p = bs[0]
    for b in bs[1:]:
        if b == p + 1:
            p = b
            continue
        runs.append((s, p))
        s = p = b
    runs.append((s, p))
    return ",".join("%d" % a if a == b else "%d-%d" % (a, b)
                    for a, b in runs)


class TriInterp:
    def __init__(self, world, cls, outcome, folder=None, dyn_attrs=None):
        """outcome: 'none' | 'clean' | 'err'"""
        self.dyn_attrs = dyn_attrs or {}
        self.world = world
        self.cls = cls
        self.outcome = outcome
        self.folder = folder or Folder(world)
        self.depth = 0
        self.exc_classes = {}

    # -- exception classes ----------------------------------------------------
    def exc_name(self, expr, mod):
        """Evaluate an exception class expression to a name."""
        if expr is None:
            return None
        if isinstance(expr, ast.Call):
            expr = expr.func
        if isinstance(expr, ast.BoolOp):
            # `A or B` evaluates to A (classes are truthy); `A and B` to B
            if isinstance(expr.op, ast.Or):
                return self.exc_name(expr.values[0], mod)
            return self.exc_name(expr.values[-1], mod)
        c = self.world.resolve_class(mod, expr)
        if c is not None:
            return c.qname
        if isinstance(expr, ast.Name):
            return expr.id
        if isinstance(expr, ast.Attribute):
            return expr.attr
        return unparse(expr)

    def exc_isa(self, name, base):
        """Is exception class `name` a subclass of `base`?"""
        if name == base:
            return True
        c = self.world.classes.get(name)
        if c is not None:
            for k in c.mro:
                if isinstance(k, ClassInfo):
                    if k.qname == base:
                        return True
                else:
                    b = k.split(".")[-1]
                    if self.exc_isa(b, base):
                        return True
            return False
        cur = name
        while cur is not None:
            if cur == base:
                return True
            cur = BUILTIN_EXC_BASES.get(cur)
        return False

    def handler_catches(self, handler, excname, mod):
        if handler.type is None:
            return True
        t = handler.type
        elts = t.elts if isinstance(t, ast.Tuple) else [t]
        for e in elts:
            n = self.exc_name(e, mod)
            if n is not None and self.exc_isa(excname, n):
                return True
        return False

    # -- entry points -----------------------------------------------------------
    def frame_value(self):
        return NONE if self.outcome == "none" else FRAME

    def run_attr(self, name):
        """Outcomes of evaluating self.<name> over the whole byte range."""
        start = Path(ALL_BYTES if self.outcome != "none" else None, {})
        outs = []
        for (p, v) in self.self_attr(name, start, None, outs):
            outs.append(Outcome("return", v, p.bytes))
        return outs

    def run_method(self, name, args=()):
        start = Path(ALL_BYTES if self.outcome != "none" else None, {})
        r = self.cls.lookup(name)
        if r is None or r[1] in ("attr", "class"):
            raise AnalysisError("%s has no method %s" % (self.cls.qname,
                                                         name))
        owner, kind, fn = r
        return self.call_function(owner, fn, start, list(args))

    # -- calling ------------------------------------------------------------------
    def call_function(self, owner, fn, path, args):
        """Interpret fn on path; returns list of Outcome (return/raise)."""
        # the same function entered again with the same receiver state,
        # byte subset and arguments: the program itself recurses without
        # progress there (RecursionError at run time)
        key = (id(fn), path.bytes if path.bytes is None else frozenset(
            path.bytes), tuple(repr(a) for a in args))
        stack = self.__dict__.setdefault("_callstack", [])
        if key in stack:
            return [Outcome("raise", "RecursionError", path.bytes)]
        self.depth += 1
        if self.depth > 12:
            raise AnalysisError("tri: recursion too deep in %s" % fn.name)
        stack.append(key)
        try:
            env = {}
            params = [a.arg for a in fn.args.args]
            if params and params[0] in ("self", "cls"):
                env[params[0]] = SELF
                params = params[1:]
            for pn, a in zip(params, args):
                env[pn] = a
            if "__trail__" in path.env:
                env["__trail__"] = path.env["__trail__"]
            if "__facts__" in path.env:
                env["__facts__"] = path.env["__facts__"]
            p0 = Path(path.bytes, env)
            outs = []
            falls = self.exec_block(fn.body, [p0], owner, outs)
            for p in falls:
                outs.append(Outcome("return", NONE, p.bytes,
                                    p.env.get("__trail__", ()),
                                    p.env.get("__facts__")))
            return outs
        finally:
            self.depth -= 1
            stack.pop()

    def self_attr(self, name, path, owner, outs, after=None):
        """Evaluate self.<name>; returns list of (path, value); raises are
        appended to outs."""
        c = self.cls
        r = c.lookup_after(name, after) if after is not None else \
            c.lookup(name)
        if name == "_value":
            return [(path, self.frame_value())]
        if name in self.dyn_attrs and after is None:
            return [(path, self.lift(self.dyn_attrs[name]))]
        if r is None:
            ga = c.lookup("__getattr__")
            if ga is not None and ga[1] == "inst":
                o2 = self.call_function(ga[0], ga[2], path,
                                        [V("const", name)])
                return self._outs_to_vals(o2, path, outs)
            if name == "__class__":
                return [(path, UNK)]
            return [(path, UNK)]
        rowner, kind, node = r
        if kind == "property":
            o2 = self.call_function(rowner, node, path, [])
            return self._outs_to_vals(o2, path, outs)
        if kind == "attr":
            v = self.folder.class_attr(c, name) if after is None else \
                self.folder.eval(node, {}, rowner.mod, cls=rowner)
            return [(path, self.lift(v))]
        if kind == "class":
            return [(path, V("classref", node))]
        return [(path, V("method", (rowner, node)))]

    def _outs_to_vals(self, o2, path, outs):
        res = []
        for o in o2:
            if o.kind == "raise":
                outs.append(o)
            else:
                q = Path(o.bytes, dict(path.env))
                if o.trail:
                    q.env["__trail__"] = o.trail
                if o.facts is not None:
                    q.env["__facts__"] = o.facts
                res.append((q, o.val))
        return res

    def lift(self, v):
        if v is UNKNOWN:
            return UNK
        if isinstance(v, (bool, int, str, type(None))):
            return V("const", v)
        if isinstance(v, ClassRef):
            return V("classref", v.cls)
        if isinstance(v, range):
            return V("constrange", v)
        if isinstance(v, (list, tuple)):
            return V("constseq", tuple(v))
        if isinstance(v, dict):
            return V("constdict", v)
        return UNK

    # -- statements ----------------------------------------------------------------
    def exec_block(self, stmts, paths, owner, outs):
        cur = paths
        for s in stmts:
            nxt = []
            for p in cur:
                nxt += self.exec_stmt(s, p, owner, outs)
            cur = nxt
            if not cur:
                break
        return cur

    def exec_stmt(self, s, path, owner, outs):
        """Returns list of fall-through paths; appends return/raise outcomes
        to outs."""
        mod = owner.mod
        if isinstance(s, ast.Expr):
            return [p for (p, v) in self.ev(s.value, path, owner, outs)]
        if isinstance(s, ast.Return):
            if s.value is None:
                outs.append(Outcome("return", NONE, path.bytes,
                                    path.env.get("__trail__", ()),
                                    path.env.get("__facts__")))
                return []
            for (p, v) in self.ev(s.value, path, owner, outs):
                outs.append(Outcome("return", v, p.bytes,
                                    p.env.get("__trail__", ()),
                                    p.env.get("__facts__")))
            return []
        if isinstance(s, ast.Raise):
            if s.exc is None:
                outs.append(Outcome("raise", "<reraise>", path.bytes))
                return []
            name = self.exc_name(s.exc, mod)
            # evaluate constructor args for nested raises
            outs.append(Outcome("raise", name, path.bytes))
            return []
        if isinstance(s, (ast.Assign, ast.AnnAssign)):
            if isinstance(s, ast.AnnAssign) and s.value is None:
                return [path]
            res = []
            for (p, v) in self.ev(s.value, path, owner, outs):
                p2 = p.fork()
                targets = s.targets if isinstance(s, ast.Assign) else [
                    s.target]
                for t in targets:
                    if isinstance(t, ast.Name):
                        if v is INT:
                            # some integer, but this one: a copy of the
                            # name is the same number (x <= x is decided)
                            v = V("int")
                        p2.env[t.id] = v
                    elif isinstance(t, (ast.Tuple, ast.List)):
                        for e in t.elts:
                            if isinstance(e, ast.Name):
                                p2.env[e.id] = UNK
                res.append(p2)
            return res
        if isinstance(s, ast.AugAssign):
            res = []
            for (p, v) in self.ev(s.value, path, owner, outs):
                p2 = p.fork()
                if isinstance(s.target, ast.Name):
                    p2.env[s.target.id] = INT if v.kind in (
                        "byte", "int", "const") else UNK
                res.append(p2)
            return res
        if isinstance(s, ast.If):
            res = []
            txt = unparse(s.test)
            for (p, t) in self.truth(s.test, path, owner, outs):
                if t is True:
                    res += self.exec_block(s.body, [self._trail(
                        p, txt, True)], owner, outs)
                elif t is False:
                    res += self.exec_block(s.orelse, [self._trail(
                        p, txt, False)], owner, outs)
                else:
                    res += self.exec_block(s.body, [self._trail(
                        p.fork(), txt, True)], owner, outs)
                    res += self.exec_block(s.orelse, [self._trail(
                        p.fork(), txt, False)], owner, outs)
            return res
        if isinstance(s, ast.For):
            res = []
            for (p, it) in self.ev(s.iter, path, owner, outs):
                # zero iterations
                res.append(p.fork())
                # one abstract iteration with an unknown element
                p2 = p.fork()
                if isinstance(s.target, ast.Name):
                    p2.env[s.target.id] = UNK
                body_out = self.exec_block(s.body, [p2], owner, outs)
                for q in body_out:
                    # variables assigned in the loop become unknown
                    for n in ast.walk(s):
                        if isinstance(n, ast.Name) and isinstance(
                                n.ctx, ast.Store) and n.id in q.env:
                            if q.env[n.id].kind not in ("list",):
                                q.env[n.id] = UNK if q.env[n.id].kind != \
                                    "int" else INT
                    res.append(q)
            return self._dedup(res)
        if isinstance(s, ast.While) and not s.orelse:
            # like For: no iteration, or one abstract iteration after which
            # everything the loop assigns is unknown
            res = []
            for (p, t) in self.truth(s.test, path, owner, outs):
                if t is not True:
                    res.append(p.fork())
                if t is False:
                    continue
                p2 = p.fork()
                for n in ast.walk(s):
                    if isinstance(n, ast.Name) and isinstance(
                            n.ctx, ast.Store) and n.id in p2.env and \
                            p2.env[n.id].kind not in ("list",):
                        p2.env[n.id] = UNK if p2.env[n.id].kind not in (
                            "int", "byte") else INT
                for q in self.exec_block(s.body, [p2], owner, outs):
                    for n in ast.walk(s):
                        if isinstance(n, ast.Name) and isinstance(
                                n.ctx, ast.Store) and n.id in q.env:
                            if q.env[n.id].kind not in ("list",):
                                q.env[n.id] = UNK if q.env[n.id].kind != \
                                    "int" else INT
                    res.append(q)
            return self._dedup(res)
        if isinstance(s, ast.Try):
            inner = []
            falls = self.exec_block(s.body, [path], owner, inner)
            after = []
            for o in inner:
                if o.kind == "raise":
                    caught = False
                    for h in s.handlers:
                        if o.val == "<reraise>" or self.handler_catches(
                                h, o.val, mod):
                            p = Path(o.bytes, dict(path.env))
                            if h.name:
                                p.env[h.name] = V("exc", o.val)
                            after += self.exec_block(h.body, [p], owner,
                                                     outs)
                            caught = True
                            break
                    if not caught:
                        outs.append(o)
                else:
                    outs.append(o)
            if s.orelse:
                falls = self.exec_block(s.orelse, falls, owner, outs)
            allp = falls + after
            if s.finalbody:
                allp = self.exec_block(s.finalbody, allp, owner, outs)
            return allp
        if isinstance(s, ast.Pass):
            return [path]
        if isinstance(s, ast.Assert):
            return [p for (p, t) in self.truth(s.test, path, owner, outs)
                    if t is not False]
        raise AnalysisError("tri: unsupported statement %s at line %s"
                            % (type(s).__name__, s.lineno))

    def _trail(self, p, txt, val):
        q = p.fork()
        q.env["__trail__"] = q.env.get("__trail__", ()) + ((txt, val),)
        return q

    def _dedup(self, paths):
        seen, out = set(), []
        for p in paths:
            k = (p.bytes, tuple(sorted((a, repr(b))
                                       for a, b in p.env.items())))
            if k not in seen:
                seen.add(k)
                out.append(p)
        return out

    # -- truth ---------------------------------------------------------------------------
    def truth(self, e, path, owner, outs):
        """Returns [(path, True|False|None)]."""
        if isinstance(e, ast.BoolOp):
            cur = [(path, None)]
            results = []
            pending = [path]
            is_and = isinstance(e.op, ast.And)
            for i, v in enumerate(e.values):
                nxt = []
                for p in pending:
                    for (q, t) in self.truth(v, p, owner, outs):
                        last = i == len(e.values) - 1
                        if t is None:
                            # unknown: may short-circuit or continue
                            results.append((q.fork(), None))
                            if not last:
                                nxt.append(q)
                        elif (t is False) if is_and else (t is True):
                            results.append((q, t))
                        else:
                            if last:
                                results.append((q, t))
                            else:
                                nxt.append(q)
                pending = nxt
            return results
        if isinstance(e, ast.UnaryOp) and isinstance(e.op, ast.Not):
            return [(p, None if t is None else (not t))
                    for (p, t) in self.truth(e.operand, path, owner, outs)]
        if isinstance(e, ast.Compare):
            return self.compare(e, path, owner, outs)
        res = []
        for (p, v) in self.ev(e, path, owner, outs):
            res += self.value_truth(p, v)
        return res

    def value_truth(self, p, v):
        if v.kind == "const":
            return [(p, bool(v.val))]
        if v.kind == "frame":
            return [(p, True)]       # Frame.__len__ is 8
        if v.kind == "byte":
            z = p.bytes & {0}
            nz = p.bytes - {0}
            out = []
            if z:
                out.append((p.fork(z), False))
            if nz:
                out.append((p.fork(nz), True))
            return out
        if v.kind == "bfun":
            f = v.val
            z = frozenset(b for b in p.bytes if not f(b))
            nz = p.bytes - z
            out = []
            if z:
                out.append((p.fork(z), False))
            if nz:
                out.append((p.fork(nz), True))
            return out
        if v.kind in ("enum",):
            # IntEnum member: truthiness of its int value
            z = p.bytes & {0}
            nz = p.bytes - {0}
            out = []
            if z:
                out.append((p.fork(z), False))
            if nz:
                out.append((p.fork(nz), True))
            return out
        if v.kind == "constseq" or v.kind == "constdict":
            return [(p, bool(v.val))]
        if v.kind in ("classref", "method", "self"):
            return [(p, True)]
        return [(p, None)]

    def compare(self, e, path, owner, outs):
        # chained comparisons: a < x < b
        res = []
        lefts = self.ev(e.left, path, owner, outs)
        for (p, l) in lefts:
            cur = [(p, l, True)]
            for op, ce in zip(e.ops, e.comparators):
                nxt = []
                for (q, lv, sofar) in cur:
                    if sofar is False:
                        nxt.append((q, lv, False))
                        continue
                    for (q2, rv) in self.ev(ce, q, owner, outs):
                        for (q3, t) in self.cmp1(q2, lv, op, rv):
                            if sofar is None and t is True:
                                t = None
                            nxt.append((q3, rv, t))
                cur = nxt
            res += [(q, t) for (q, _, t) in cur]
        return res

    def subscript_hook(self, p, base, e, owner, outs):
        return None

    def cmp_hook(self, p, l, op, r):
        return None

    def call_hook(self, e, f, p, args, owner, outs):
        return None

    def attr_hook(self, p, base, name, owner, outs):
        return None

    def cmp1(self, p, l, op, r):
        h = self.cmp_hook(p, l, op, r)
        if h is not None:
            return h
        # (function of the) byte vs const int
        if _bf(l) is not None and _cnum(r) is not None and not isinstance(
                op, (ast.In, ast.NotIn)):
            f = _bf(l)
            return self._split_byte(p, lambda b: _cmp(op, f(b), r.val))
        if _bf(r) is not None and _cnum(l) is not None and not isinstance(
                op, (ast.In, ast.NotIn)):
            f = _bf(r)
            return self._split_byte(p, lambda b: _cmp(op, l.val, f(b)))
        if l is r and l is not INT and l.kind in ("int", "oint", "obyte") and isinstance(
                op, (ast.Lt, ast.LtE, ast.Gt, ast.GtE, ast.Eq, ast.NotEq)):
            # the same number on both sides (a limit that defaults to the
            # number itself)
            return [(p, isinstance(op, (ast.LtE, ast.GtE, ast.Eq)))]
        if _bf(l) is not None and _bf(r) is not None and isinstance(
                op, (ast.Lt, ast.LtE, ast.Gt, ast.GtE, ast.Eq, ast.NotEq)):
            # two functions of the one byte (the number and a limit that
            # defaults to the number itself)
            f, g = _bf(l), _bf(r)
            return self._split_byte(p, lambda b: _cmp(op, f(b), g(b)))
        if isinstance(op, (ast.Is, ast.IsNot)):
            known = None
            if l.kind == "const" and r.kind == "const":
                known = (l.val is r.val) or (l.val == r.val and type(
                    l.val) is type(r.val))
            elif l.kind == "const" and l.val is None and r.kind in (
                    "frame", "byte", "str", "int", "enum", "list", "bool",
                    "constseq", "constdict"):
                known = False
            elif r.kind == "const" and r.val is None and l.kind in (
                    "frame", "byte", "str", "int", "enum", "list", "bool",
                    "constseq", "constdict"):
                known = False
            elif (r.kind == "const" and isinstance(r.val, bool)
                  and l.kind in ("frame", "byte", "str", "int", "enum",
                                 "list")):
                known = False
            if known is None:
                return [(p, None)]
            return [(p, known if isinstance(op, ast.Is) else not known)]
        if isinstance(op, (ast.Eq, ast.NotEq)):
            known = None
            if l.kind == "const" and r.kind == "const":
                known = l.val == r.val
            elif {l.kind, r.kind} == {"byte", "const"} or \
                    {l.kind, r.kind} == {"str", "const"} and isinstance(
                        (l if l.kind == "const" else r).val, int):
                c = l if l.kind == "const" else r
                if isinstance(c.val, str) or c.val is None:
                    known = False
            elif {l.kind, r.kind} == {"str", "const"}:
                known = None
            if l.kind == "const" and l.val is None and r.kind in (
                    "frame", "byte", "str"):
                known = False
            if r.kind == "const" and r.val is None and l.kind in (
                    "frame", "byte", "str"):
                known = False
            if known is None:
                return [(p, None)]
            return [(p, known if isinstance(op, ast.Eq) else not known)]
        if isinstance(op, (ast.In, ast.NotIn)):
            keys = None
            if r.kind == "constdict":
                keys = set(r.val.keys())
            elif r.kind == "constseq":
                keys = set(r.val)
            if r.kind == "constrange":
                keys = r.val
            if keys is not None and _bf(l) is not None:
                pos = isinstance(op, ast.In)
                f = _bf(l)
                return self._split_byte(
                    p, lambda b: (f(b) in keys) == pos)
            if keys is not None and l.kind == "const":
                try:
                    t = l.val in keys
                except TypeError:
                    return [(p, None)]
                return [(p, t if isinstance(op, ast.In) else not t)]
            return [(p, None)]
        return [(p, None)]

    def _split_byte(self, p, pred):
        yes = frozenset(b for b in p.bytes if pred(b))
        no = p.bytes - yes
        out = []
        if yes:
            out.append((p.fork(yes), True))
        if no:
            out.append((p.fork(no), False))
        return out

    # -- expressions ----------------------------------------------------------------------
    def ev(self, e, path, owner, outs):
        """Returns [(path, V)].  Raises inside sub-expressions are appended
        to outs."""
        return self._ev(e, path, owner, outs)

    def _ev(self, e, path, owner, outs):
        mod = owner.mod
        if isinstance(e, ast.Constant):
            return [(path, V("const", e.value))]
        if isinstance(e, ast.Name):
            if e.id in path.env:
                return [(path, path.env[e.id])]
            if e.id in ("True", "False", "None"):
                return [(path, V("const", {"True": True, "False": False,
                                           "None": None}[e.id]))]
            v = self.folder.eval(e, {}, mod)
            return [(path, self.lift(v))]
        if isinstance(e, ast.Attribute):
            # a constant of another module (`command.MASK_VALUE`)
            r_ = e
            while isinstance(r_, ast.Attribute):
                r_ = r_.value
            if isinstance(r_, ast.Name) and r_.id not in path.env and \
                    r_.id not in ("self", "cls"):
                try:
                    cv = self.folder.eval(e, {}, mod)
                except Exception:
                    cv = UNKNOWN
                if cv is None or type(cv) in (int, str, bytes, bool, float):
                    return [(path, V("const", cv))]
            res = []
            for (p, base) in self._ev(e.value, path, owner, outs):
                res += self.attr(p, base, e.attr, owner, outs, e)
            return res
        if isinstance(e, ast.Call):
            return self.call(e, path, owner, outs)
        if isinstance(e, ast.BoolOp):
            # value of a BoolOp: approximate via truth, return last operand
            res = []
            pending = [path]
            is_and = isinstance(e.op, ast.And)
            for i, v in enumerate(e.values):
                nxt = []
                last = i == len(e.values) - 1
                for p in pending:
                    for (q, val) in self._ev(v, p, owner, outs):
                        for (q2, t) in self.value_truth(q, val):
                            if last:
                                res.append((q2, val))
                            elif t is None:
                                res.append((q2.fork(), val))
                                nxt.append(q2)
                            elif (t is False) if is_and else (t is True):
                                res.append((q2, val))
                            else:
                                nxt.append(q2)
                pending = nxt
            return res
        if isinstance(e, ast.UnaryOp):
            if isinstance(e.op, ast.Not):
                return [(p, V("const", not t) if t is not None else BOOLV)
                        for (p, t) in self.truth(e.operand, path, owner,
                                                 outs)]
            res = []
            for (p, v) in self._ev(e.operand, path, owner, outs):
                if v.kind == "const" and isinstance(v.val, (int, float)):
                    if isinstance(e.op, ast.USub):
                        res.append((p, V("const", -v.val)))
                    elif isinstance(e.op, ast.Invert) and isinstance(
                            v.val, int):
                        res.append((p, V("const", ~v.val)))
                    else:
                        res.append((p, v))
                elif _bf(v) is not None and isinstance(e.op, ast.USub):
                    f = _bf(v)
                    res.append((p, V("bfun", lambda b, f=f: -f(b))))
                else:
                    res.append((p, INT))
            return res
        if isinstance(e, ast.Compare):
            return [(p, V("const", t) if t is not None else BOOLV)
                    for (p, t) in self.compare(e, path, owner, outs)]
        if isinstance(e, ast.BinOp):
            res = []
            for (p, l) in self._ev(e.left, path, owner, outs):
                for (q, r) in self._ev(e.right, p, owner, outs):
                    if isinstance(e.op, ast.Mod) and (
                            l.kind in ("str",) or (l.kind == "const"
                                                   and isinstance(l.val,
                                                                  str))):
                        res.append((q, STR))
                    elif _strnum_clash(e.op, l, r):
                        # text combined with a number (a marker string where
                        # the integer was expected): TypeError at run time
                        outs.append(Outcome("raise", "TypeError", q.bytes))
                    elif l.kind == "const" and r.kind == "const":
                        v = self.folder.eval(e, {}, mod)
                        res.append((q, self.lift(v)))
                    elif _bf(l) is not None and _cint(r) is not None and \
                            type(e.op) in _BOPS:
                        f, c, o = _bf(l), _cint(r), _BOPS[type(e.op)]
                        res.append((q, V("bfun", _compose(o, f, c, False))))
                    elif _bf(r) is not None and _cint(l) is not None and \
                            type(e.op) in _BOPS:
                        f, c, o = _bf(r), _cint(l), _BOPS[type(e.op)]
                        res.append((q, V("bfun", _compose(o, f, c, True))))
                    else:
                        res.append((q, INT if l.kind in (
                            "byte", "int", "const", "enum") else UNK))
            return res
        if isinstance(e, ast.IfExp):
            res = []
            for (p, t) in self.truth(e.test, path, owner, outs):
                if t is not False:
                    res += self._ev(e.body, p.fork(), owner, outs)
                if t is not True:
                    res += self._ev(e.orelse, p.fork(), owner, outs)
            return res
        if isinstance(e, ast.JoinedStr):
            cur = [path]
            for v in e.values:
                if isinstance(v, ast.FormattedValue):
                    nxt = []
                    for p in cur:
                        nxt += [q for (q, _) in self._ev(v.value, p, owner,
                                                         outs)]
                    cur = nxt
            return [(p, STR) for p in cur]
        if isinstance(e, ast.Subscript):
            res = []
            for (p, base) in self._ev(e.value, path, owner, outs):
                h = self.subscript_hook(p, base, e, owner, outs)
                if h is not None:
                    res += h
                    continue
                if isinstance(e.slice, ast.Slice):
                    res.append((p, INT if base.kind == "frame" else UNK))
                    continue
                for (q, idx) in self._ev(e.slice, p, owner, outs):
                    if base.kind == "frame":
                        if idx.kind == "const" and isinstance(idx.val, int):
                            res.append((q, V("framebit", idx.val)))
                        else:
                            res.append((q, BOOLV))
                    elif base.kind == "constdict":
                        if idx.kind == "byte":
                            keys = set(base.val.keys())
                            hit = q.bytes & keys
                            miss = q.bytes - keys
                            if hit:
                                vals = {repr(base.val[b]) for b in hit}
                                res.append((q.fork(hit), STR if all(
                                    isinstance(base.val[b], str)
                                    for b in hit) else UNK))
                            if miss:
                                outs.append(Outcome("raise", "KeyError",
                                                    miss))
                        elif idx.kind == "const":
                            if idx.val in base.val:
                                res.append((q, self.lift(base.val[idx.val])))
                            else:
                                outs.append(Outcome("raise", "KeyError",
                                                    q.bytes))
                        else:
                            res.append((q, UNK))
                    elif base.kind == "constseq" and idx.kind == "byte":
                        n_ = len(base.val)
                        hit = {b for b in q.bytes if b < n_}
                        miss = q.bytes - hit
                        if hit:
                            res.append((q.fork(hit), STR if all(
                                isinstance(base.val[b], str) for b in hit)
                                else UNK))
                        if miss:
                            outs.append(Outcome("raise", "IndexError", miss))
                    elif base.kind == "constseq" and idx.kind == "const" \
                            and isinstance(idx.val, int):
                        if -len(base.val) <= idx.val < len(base.val):
                            res.append((q, self.lift(base.val[idx.val])))
                        else:
                            outs.append(Outcome("raise", "IndexError",
                                                q.bytes))
                    else:
                        res.append((q, UNK))
            return res
        if isinstance(e, (ast.List, ast.Tuple)):
            cur = [path]
            for x in e.elts:
                nxt = []
                for p in cur:
                    nxt += [q for (q, _) in self._ev(x, p, owner, outs)]
                cur = nxt
            v = self.folder.eval(e, {}, mod)
            return [(p, self.lift(v) if v is not UNKNOWN else LISTV)
                    for p in cur]
        if isinstance(e, ast.Dict):
            return [(path, UNK)]
        return [(path, UNK)]

    def attr(self, p, base, name, owner, outs, node):
        h = self.attr_hook(p, base, name, owner, outs)
        if h is not None:
            return h
        if base.kind == "self":
            return self.self_attr(name, p, owner, outs)
        if base.kind == "super":
            return self.self_attr(name, p, owner, outs, after=base.val)
        if base.kind == "frame":
            if name == "error":
                return [(p, V("const", self.outcome == "err"))]
            if name == "as_integer":
                return [(p, BYTE)]
            if name in ("_data",):
                return [(p, BYTE)]
            if name in ("as_byte_sequence", "pack"):
                return [(p, UNK)]
            return [(p, UNK)]
        if base.kind == "const" and base.val is None:
            outs.append(Outcome("raise", "AttributeError", p.bytes))
            return []
        if base.kind == "enum":
            if name in ("value",):
                return [(p, BYTE)]
            if name == "name":
                return [(p, STR)]
            return [(p, UNK)]
        if base.kind == "classref":
            v = self.folder.class_attr(base.val, name)
            return [(p, self.lift(v))]
        if base.kind in ("str", "byte", "int") or (
                base.kind == "const" and isinstance(base.val, (str, int))):
            return [(p, V("boundmethod", (base, name)))]
        if base.kind in ("constseq", "constdict", "list"):
            return [(p, V("boundmethod", (base, name)))]
        return [(p, UNK)]

    def call(self, e, path, owner, outs):
        mod = owner.mod
        f = e.func
        # super()
        if isinstance(f, ast.Name) and f.id == "super":
            if e.args:
                k = self.world.resolve_class(mod, e.args[0])
                return [(path, V("super", k or owner))]
            return [(path, V("super", owner))]
        # evaluate args (left to right) for effects
        cur = [(path, [])]
        for a in e.args:
            nxt = []
            for (p, vals) in cur:
                for (q, v) in self._ev(a.value if isinstance(
                        a, ast.Starred) else a, p, owner, outs):
                    nxt.append((q, vals + [v]))
            cur = nxt
        for k in e.keywords:
            nxt = []
            for (p, vals) in cur:
                for (q, v) in self._ev(k.value, p, owner, outs):
                    nxt.append((q, vals))
            cur = nxt
        res = []
        for (p, args) in cur:
            res += self.call1(e, f, p, args, owner, outs)
        return res

    def call1(self, e, f, p, args, owner, outs):
        mod = owner.mod
        h = self.call_hook(e, f, p, args, owner, outs)
        if h is not None:
            return h
        if isinstance(f, ast.Name) and f.id not in p.env and args and all(
                a.kind == "const" for a in args) and not e.keywords:
            # constant call (range(-6, 7), bytes([0xff, 0xfe]), ...)
            v = self.folder.eval(e, {}, mod)
            from .fold import UNKNOWN as _U
            if v is not _U:
                return [(p, self.lift(v))]
        if isinstance(f, ast.Name):
            if f.id == "isinstance" and len(args) == 2:
                t = self.isinstance_(args[0], e.args[1], mod)
                return [(p, V("const", t) if t is not None else BOOLV)]
            if f.id in ("len",):
                return [(p, INT)]
            if f.id in ("str", "repr", "hex", "bin"):
                return [(p, STR)]
            if f.id in ("int", "abs", "round"):
                return [(p, INT)]
            if f.id in ("list", "sorted", "tuple"):
                return [(p, LISTV)]
            if f.id == "bool":
                return [(p, BOOLV)]
            if f.id == "hasattr":
                return [(p, BOOLV)]
        res = []
        for (q, fv) in self._ev(f, p, owner, outs):
            if fv.kind == "boundmethod":
                base, name = fv.val
                if name in ("format", "join", "replace", "upper", "lower",
                            "strip", "hex"):
                    res.append((q, STR))
                elif name == "append":
                    res.append((q, NONE))
                elif name in ("get",) and base.kind == "constdict" and \
                        args and args[0].kind == "const" and len(args) <= 2 \
                        and (len(args) == 1 or args[1].kind == "const"):
                    # a lookup in a folded table with a known key
                    try:
                        hit = args[0].val in base.val
                    except TypeError:
                        hit = False
                    res.append((q, self.lift(base.val[args[0].val]) if hit
                                else (args[1] if len(args) == 2 else NONE)))
                elif name in ("get",):
                    res.append((q, UNK))
                else:
                    res.append((q, UNK))
            elif fv.kind == "classref":
                k = fv.val
                if self.folder.is_enum(k) and len(args) == 1:
                    mem = set(v for v in self.folder.enum_members(
                        k).values() if isinstance(v, int))
                    a = args[0]
                    if a.kind == "byte":
                        hit = q.bytes & mem
                        miss = q.bytes - mem
                        if hit:
                            res.append((q.fork(hit), ENUMV))
                        if miss:
                            outs.append(Outcome("raise", "ValueError", miss))
                    elif a.kind == "const":
                        if a.val in mem:
                            res.append((q, ENUMV))
                        else:
                            outs.append(Outcome("raise", "ValueError",
                                                q.bytes))
                    else:
                        res.append((q, ENUMV))
                        outs.append(Outcome("raise", "ValueError", q.bytes))
                else:
                    res.append((q, UNK))
            elif fv.kind == "method":
                rowner, fn = fv.val
                res += self._outs_to_vals(
                    self.call_function(rowner, fn, q, args), q, outs)
            else:
                res.append((q, UNK))
        return res

    def isinstance_(self, v, texpr, mod):
        elts = texpr.elts if isinstance(texpr, ast.Tuple) else [texpr]
        verdicts = []
        for t in elts:
            name = unparse(t)
            if name == "int":
                if v.kind in ("byte", "int", "enum", "bool", "bfun"):
                    verdicts.append(True)
                elif v.kind == "const":
                    verdicts.append(isinstance(v.val, int))
                elif v.kind in ("str", "frame", "list", "constseq",
                                "constdict"):
                    verdicts.append(False)
                else:
                    verdicts.append(None)
            elif name == "str":
                if v.kind == "str":
                    verdicts.append(True)
                elif v.kind == "const":
                    verdicts.append(isinstance(v.val, str))
                elif v.kind in ("byte", "int", "enum", "frame", "bool",
                                "bfun"):
                    verdicts.append(False)
                else:
                    verdicts.append(None)
            else:
                c = self.world.resolve_class(mod, t)
                if c is not None and c.qname.startswith("dali.frame."):
                    if v.kind == "frame":
                        if c.name == "BackwardFrameError":
                            verdicts.append(self.outcome == "err")
                        elif c.name in ("BackwardFrame", "Frame"):
                            verdicts.append(True)
                        else:
                            verdicts.append(False)
                    elif v.kind in ("const", "byte", "int", "str", "enum"):
                        verdicts.append(False)
                    else:
                        verdicts.append(None)
                else:
                    verdicts.append(None)
        if any(x is True for x in verdicts):
            return True
        if all(x is False for x in verdicts):
            return False
        return None


import operator as _op

_BOPS = {ast.Add: _op.add, ast.Sub: _op.sub, ast.Mult: _op.mul,
         ast.FloorDiv: _op.floordiv, ast.Mod: _op.mod, ast.LShift: _op.lshift,
         ast.RShift: _op.rshift, ast.BitAnd: _op.and_, ast.BitOr: _op.or_,
         ast.BitXor: _op.xor}


def _bf(v):
    """byte-function of an abstract value (identity for the byte itself)."""
    if v.kind == "byte":
        return lambda b: b
    if v.kind == "bfun":
        return v.val
    return None


def _cint(v):
    if v.kind == "const" and isinstance(v.val, int) and not isinstance(
            v.val, bool):
        return v.val
    return None


def _cnum(v):
    """a constant number a byte can be compared with (float('inf') as the
    bound that never binds)"""
    if v.kind == "const" and isinstance(v.val, (int, float)) and \
            not isinstance(v.val, bool):
        return v.val
    return None


def _compose(o, f, c, swapped):
    if swapped:
        return lambda b: o(c, f(b))
    return lambda b: o(f(b), c)


def _cmp(op, a, b):
    if isinstance(op, ast.Eq):
        return a == b
    if isinstance(op, ast.NotEq):
        return a != b
    if isinstance(op, ast.Lt):
        return a < b
    if isinstance(op, ast.LtE):
        return a <= b
    if isinstance(op, ast.Gt):
        return a > b
    if isinstance(op, ast.GtE):
        return a >= b
    if isinstance(op, ast.Is):
        return a == b
    if isinstance(op, ast.IsNot):
        return a != b
    return None
