"""dalint - repository-specific static analysis of python-dali (ast only;
the analysed repository is never imported or executed)."""
