"""Small AST queries shared by rules that look for an effect (a call, a store)
rather than for a statement spelled in one particular way.

  calls(fn)                    Call nodes of fn (nested defs excluded)
  calls_to(fn, name)           calls whose callee text is `name` or ends in
                               `.name`
  resolve(fn, expr)            expr with locals that are assigned exactly
                               once (plain or tuple assignment) replaced by
                               their definitions, constants folded and
                               slices of slices composed:
                                 payload = data[3:-1]; rx = payload[4:];
                                 rx[0]            ->  data[7]
  canon(fn, expr)              unparse(resolve(..))
  stores(fn)                   {target text: [value nodes]} of plain
                               assignments

Renaming a local, hoisting a sub-expression or inlining one leaves these
unchanged; which value reaches the effect is what the rules compare."""
import ast

from .cfg import _walk_no_nested
from .core import unparse
from .inline import acopy
from .unroll import _Fold


def calls(fn):
    for s in fn.body:
        for n in _walk_no_nested(s):
            if isinstance(n, ast.Call):
                yield n


def calls_to(fn, name):
    out = []
    for c in calls(fn):
        t = unparse(c.func, 200)
        if t == name or t.endswith("." + name):
            out.append(c)
    return out


def _defs(fn):
    """name -> value for locals stored exactly once; tuple targets give
    Subscript(value, i) (or the element, for a tuple display)."""
    count = {}
    vals = {}
    for a in fn.args.args + fn.args.kwonlyargs:
        count[a.arg] = 1
    for s in fn.body:
        for n in _walk_no_nested(s):
            if isinstance(n, ast.Name) and isinstance(
                    n.ctx, (ast.Store, ast.Del)):
                count[n.id] = count.get(n.id, 0) + 1
            if isinstance(n, ast.ExceptHandler) and n.name:
                count[n.name] = count.get(n.name, 0) + 1
    for s in fn.body:
        for n in _walk_no_nested(s):
            if not isinstance(n, ast.Assign) or len(n.targets) != 1:
                continue
            t = n.targets[0]
            if isinstance(t, ast.Name):
                vals[t.id] = n.value
            elif isinstance(t, (ast.Tuple, ast.List)) and isinstance(
                    n.value, (ast.Tuple, ast.List)) and len(
                        n.value.elts) == len(t.elts) and not all(
                            isinstance(x, ast.Name) for x in t.elts):
                # `a, self.x = self.x, None`: the names among the targets
                for x, v in zip(t.elts, n.value.elts):
                    if isinstance(x, ast.Name):
                        vals[x.id] = v
            elif isinstance(t, (ast.Tuple, ast.List)) and all(
                    isinstance(x, ast.Name) for x in t.elts):
                for i, x in enumerate(t.elts):
                    if isinstance(n.value, (ast.Tuple, ast.List)) and len(
                            n.value.elts) == len(t.elts):
                        vals[x.id] = n.value.elts[i]
                    else:
                        vals[x.id] = ast.Subscript(
                            n.value, ast.Constant(i), ast.Load())
    return {k: v for k, v in vals.items() if count.get(k) == 1}


def _pure(e):
    return not any(isinstance(n, (ast.Call, ast.Await, ast.Yield,
                                  ast.YieldFrom, ast.NamedExpr, ast.Lambda))
                   for n in ast.walk(e))


class _Compose(ast.NodeTransformer):
    """x[a:b][k] -> x[a+k]; x[a:b][c:] -> x[a+c:b]; x[a:][c:d] -> x[a+c:a+d]
    for non-negative constants a, c, k (negative stop b kept)."""

    def visit_Subscript(self, n):
        self.generic_visit(n)
        inner = n.value
        if not (isinstance(inner, ast.Subscript) and isinstance(
                inner.slice, ast.Slice) and inner.slice.step is None):
            return n
        a = _cint(inner.slice.lower, 0)
        b = inner.slice.upper
        if a is None or a < 0:
            return n
        if isinstance(n.slice, ast.Constant) and type(n.slice.value) is int \
                and n.slice.value >= 0:
            bb = _cint(b, None) if b is not None else None
            if b is not None and (bb is None or (
                    bb >= 0 and a + n.slice.value >= bb)):
                return n
            return ast.copy_location(ast.Subscript(
                inner.value, ast.Constant(a + n.slice.value), n.ctx), n)
        if isinstance(n.slice, ast.Slice) and n.slice.step is None:
            c = _cint(n.slice.lower, 0)
            d = n.slice.upper
            if c is None or c < 0:
                return n
            if d is None:
                new = ast.Slice(ast.Constant(a + c), b, None)
            else:
                dd = _cint(d, None)
                if dd is None or dd < 0 or b is not None:
                    return n
                new = ast.Slice(ast.Constant(a + c), ast.Constant(a + dd),
                                None)
            return ast.copy_location(ast.Subscript(inner.value, new, n.ctx),
                                     n)
        return n


def _cint(e, default):
    if e is None:
        return default
    if isinstance(e, ast.Constant) and type(e.value) is int:
        return e.value
    if isinstance(e, ast.UnaryOp) and isinstance(e.op, ast.USub) and \
            isinstance(e.operand, ast.Constant) and type(
                e.operand.value) is int:
        return -e.operand.value
    return None


def resolve(fn, expr, depth=8, defs=None, calls=False):
    """calls=True also substitutes locals bound once to an expression that
    contains a call (the value is then only a description of where the
    local comes from, not something evaluated twice)."""
    defs = _defs(fn) if defs is None else defs

    class S(ast.NodeTransformer):
        def __init__(self):
            self.changed = False

        def visit_Name(self, n):
            if isinstance(n.ctx, ast.Load) and n.id in defs and (
                    calls or _pure(defs[n.id])):
                self.changed = True
                return acopy(defs[n.id])
            return n

        def visit_Lambda(self, n):
            return n
    e = acopy(expr)
    for _ in range(depth):
        s = S()
        e = s.visit(e)
        if not s.changed:
            break
    e = _Fold().visit(e)
    e = _Compose().visit(e)
    ast.fix_missing_locations(e)
    return e


def canon(fn, expr, defs=None, calls=False):
    return unparse(resolve(fn, expr, defs=defs, calls=calls), 300)


def stores(fn):
    out = {}
    for s in fn.body:
        for n in _walk_no_nested(s):
            if isinstance(n, ast.Assign):
                for t in n.targets:
                    out.setdefault(unparse(t), []).append(n.value)
            elif isinstance(n, ast.AugAssign):
                out.setdefault(unparse(n.target), []).append(n)
    return out


def raises(fn, excname):
    out = []
    for s in fn.body:
        for n in _walk_no_nested(s):
            if isinstance(n, ast.Raise) and n.exc is not None:
                t = unparse(n.exc.func if isinstance(n.exc, ast.Call)
                            else n.exc)
                if t == excname or t.endswith("." + excname):
                    out.append(n)
    return out


def propagate(fn, depth=8):
    """Copy of fn with every load of a once-assigned local (pure right-hand
    side) replaced by its definition: `status = report[0]; if status == X`
    reads `if self._response[0] == X`."""
    defs = _defs(fn)
    params = {a.arg for a in fn.args.args + fn.args.kwonlyargs}
    defs = {k: v for k, v in defs.items() if k not in params and _pure(v)}
    fn = acopy(fn)

    class S(ast.NodeTransformer):
        def visit_Name(self, n):
            if isinstance(n.ctx, ast.Load) and n.id in defs:
                return ast.copy_location(resolve(fn, n, depth, defs), n)
            return n

        def visit_Lambda(self, n):
            return n
    S().visit(fn)
    ast.fix_missing_locations(fn)
    return fn
