"""Constant folder / partial evaluator over the AST.

Evaluates the pure expression forms the repository uses in class bodies,
registration code and argument normalisation, on *constants only*.  Anything
depending on a run-time input evaluates to UNKNOWN; nothing from /repo is
ever executed - the evaluator interprets syntax trees with its own
implementation of a whitelisted set of operations."""
import ast
import operator

from .front import ClassInfo


class _Unknown:
    def __repr__(self):
        return "UNKNOWN"

    def __bool__(self):
        raise TypeError("UNKNOWN has no truth value")


UNKNOWN = _Unknown()


class ClassRef:
    """A reference to a repository class as a value."""
    __slots__ = ("cls",)

    def __init__(self, cls):
        self.cls = cls

    def __repr__(self):
        return "<classref %s>" % self.cls.qname

    def __eq__(self, other):
        return isinstance(other, ClassRef) and other.cls is self.cls

    def __hash__(self):
        return hash(id(self.cls))


class EnumMember:
    __slots__ = ("cls", "name", "value")

    def __init__(self, cls, name, value):
        self.cls, self.name, self.value = cls, name, value

    def __repr__(self):
        return "<%s.%s: %r>" % (self.cls.name, self.name, self.value)

    def __eq__(self, other):
        if isinstance(other, EnumMember):
            return other.cls is self.cls and other.value == self.value
        if self.cls.has_ext_base("IntEnum") or self.cls.has_ext_base(
                "IntFlag"):
            return other == self.value
        return False

    def __hash__(self):
        return hash((id(self.cls), self.value if isinstance(
            self.value, (int, str)) else self.name))

    def __int__(self):
        return int(self.value)

    def __index__(self):
        return int(self.value)


class Record:
    """A value built by one of the repository's own pure constructors
    (modelled, not executed)."""

    def __init__(self, kind, **fields):
        self.kind = kind
        self.__dict__.update(fields)

    def __repr__(self):
        return "<%s %s>" % (self.kind, {k: v for k, v in self.__dict__.items()
                                        if k != "kind"})

    def key(self):
        return (self.kind,) + tuple(sorted(
            (k, repr(v)) for k, v in self.__dict__.items() if k != "kind"))

    def __eq__(self, other):
        return isinstance(other, Record) and self.key() == other.key()

    def __hash__(self):
        return hash(self.key())


_BINOPS = {
    ast.Add: operator.add, ast.Sub: operator.sub, ast.Mult: operator.mul,
    ast.FloorDiv: operator.floordiv, ast.Mod: operator.mod,
    ast.LShift: operator.lshift, ast.RShift: operator.rshift,
    ast.BitAnd: operator.and_, ast.BitOr: operator.or_,
    ast.BitXor: operator.xor, ast.Pow: operator.pow,
    ast.Div: operator.truediv,
}
_CMPOPS = {
    ast.Eq: operator.eq, ast.NotEq: operator.ne, ast.Lt: operator.lt,
    ast.LtE: operator.le, ast.Gt: operator.gt, ast.GtE: operator.ge,
    ast.Is: lambda a, b: a is b or (a == b and isinstance(a, (
        bool, type(None), int, str))),
    ast.IsNot: lambda a, b: not (a is b or (a == b and isinstance(a, (
        bool, type(None), int, str)))),
    ast.In: lambda a, b: a in b, ast.NotIn: lambda a, b: a not in b,
}
_TYPES = {"int": int, "str": str, "tuple": tuple, "list": list, "bytes": bytes,
          "bool": bool, "dict": dict, "set": set, "float": float}
_SAFE_FUNCS = {
    "range": range, "len": len, "int": int, "bool": bool, "min": min,
    "max": max, "list": list, "tuple": tuple, "set": set, "sorted": sorted,
    "pow": pow, "bytes": bytes, "sum": sum, "abs": abs, "str": str,
    "frozenset": frozenset, "dict": dict, "enumerate": lambda *a: list(
        enumerate(*a)), "zip": lambda *a: list(zip(*a)), "reversed":
    lambda a: list(reversed(a)), "bytearray": bytes, "float": float,
    "hex": hex, "divmod": divmod, "any": any, "all": all,
}
_SAFE_METHODS = {
    int: {"to_bytes", "bit_length"},
    bool: {"to_bytes", "bit_length"},
    str: {"replace", "upper", "lower", "format", "join", "split", "strip",
          "startswith", "endswith", "encode"},
    bytes: {"decode", "hex"},
    tuple: {"index", "count"},
    list: {"index", "count", "copy"},
    dict: {"get", "keys", "values", "items", "copy"},
    set: {"union", "intersection", "difference", "copy"},
    frozenset: {"union", "intersection", "difference"},
}


def _known(*vs):
    return all(v is not UNKNOWN for v in vs)


def _plain(v):
    """Is v a plain Python constant structure safe to operate on?"""
    if isinstance(v, (int, str, bytes, bool, float, type(None), range)):
        return True
    if isinstance(v, (tuple, list, set, frozenset)):
        return all(_plain(x) for x in v)
    if isinstance(v, dict):
        return all(_plain(k) and _plain(x) for k, x in v.items())
    if isinstance(v, (EnumMember, ClassRef, Record)):
        return True
    return False


class _NotPure(Exception):
    """A function body outside the small pure subset the folder runs."""


class Folder:
    def __init__(self, world, ext_call=None):
        self.world = world
        self._enum_cache = {}
        self._attr_cache = {}
        self.ext_call = ext_call   # hook: (folder, func_binding, args, kwargs)

    # -- enums ------------------------------------------------------------------
    def is_enum(self, cls):
        return any(isinstance(k, str) and k.split(".")[-1] in (
            "Enum", "IntEnum", "IntFlag", "Flag") for k in cls.mro)

    def enum_members(self, cls):
        """name -> value for an Enum/IntEnum/IntFlag class (auto() numbered
        in order: Enum/IntEnum 1,2,3..; IntFlag 1,2,4..)."""
        if cls in self._enum_cache:
            return self._enum_cache[cls]
        members = {}
        self._enum_cache[cls] = members
        is_flag = any(isinstance(k, str) and k.split(".")[-1] in (
            "IntFlag", "Flag") for k in cls.mro)
        last = None
        # members of base enum classes are not inherited (enums with members
        # cannot be subclassed), so only this class body matters
        for (name, expr, stmt) in cls.attr_order:
            if name.startswith("_"):
                continue
            if isinstance(expr, ast.Call) and isinstance(
                    expr.func, ast.Name) and expr.func.id == "auto":
                if is_flag:
                    v = 1 if last is None else 1 << (int(last).bit_length())
                else:
                    v = 1 if last is None else last + 1
            else:
                v = self.eval(expr, {}, cls.mod, cls=cls,
                              _enum_partial=members)
            if v is UNKNOWN:
                continue
            if isinstance(v, EnumMember):
                v = v.value
            members[name] = v
            if isinstance(v, int):
                last = v
        return members

    # -- class attributes -------------------------------------------------------
    def class_attr(self, cls, name):
        """Folded value of class attribute `name` through the MRO."""
        key = (cls, name)
        if key in self._attr_cache:
            return self._attr_cache[key]
        self._attr_cache[key] = UNKNOWN     # cycle guard
        r = cls.lookup(name)
        v = UNKNOWN
        if r is not None:
            owner, kind, node = r
            if kind == "attr":
                if self.is_enum(owner) and not name.startswith("_"):
                    mem = self.enum_members(owner)
                    if name in mem:
                        v = EnumMember(owner, name, mem[name])
                    else:
                        v = self.eval(node, {}, owner.mod, cls=owner)
                else:
                    v = self.eval(node, {}, owner.mod, cls=owner)
            elif kind == "class":
                v = ClassRef(node)
        self._attr_cache[key] = v
        return v

    # -- evaluation -----------------------------------------------------------------
    def eval(self, e, env, modname, cls=None, _enum_partial=None):
        try:
            return self._eval(e, env, modname, cls, _enum_partial)
        except (TypeError, ValueError, KeyError, IndexError, OverflowError,
                ZeroDivisionError, AttributeError):
            return UNKNOWN

    def _eval(self, e, env, mod, cls, ep):
        ev = lambda x: self._eval(x, env, mod, cls, ep)   # noqa: E731
        if isinstance(e, ast.Constant):
            return e.value
        if isinstance(e, ast.Name):
            if e.id in env:
                return env[e.id]
            if ep is not None and e.id in ep:
                return ep[e.id]
            if cls is not None:
                # class-body scope: earlier assignments of this class only
                if e.id in cls.attrs:
                    return self.class_attr(cls, e.id)
                if e.id in cls.nested:
                    return ClassRef(cls.nested[e.id])
            if e.id in ("True", "False", "None"):
                return {"True": True, "False": False, "None": None}[e.id]
            b = self.world.lookup(mod, e.id)
            if b is not None:
                if b.kind == "class":
                    return ClassRef(b.value)
                if b.kind == "expr":
                    return self.eval(b.value, {}, b.mod)
            return UNKNOWN
        if isinstance(e, ast.Tuple):
            vs = [ev(x) for x in e.elts]
            return tuple(vs) if _known(*vs) else UNKNOWN
        if isinstance(e, ast.List):
            vs = [ev(x) for x in e.elts]
            return list(vs) if _known(*vs) else UNKNOWN
        if isinstance(e, ast.Set):
            vs = [ev(x) for x in e.elts]
            return set(vs) if _known(*vs) else UNKNOWN
        if isinstance(e, ast.Dict):
            ks = [ev(k) if k is not None else UNKNOWN for k in e.keys]
            vs = [ev(v) for v in e.values]
            if _known(*ks) and _known(*vs):
                return dict(zip(ks, vs))
            return UNKNOWN
        if isinstance(e, ast.UnaryOp):
            v = ev(e.operand)
            if v is UNKNOWN:
                return UNKNOWN
            if isinstance(v, EnumMember):
                v = v.value
            if isinstance(e.op, ast.Not):
                return not v
            if isinstance(e.op, ast.USub):
                return -v
            if isinstance(e.op, ast.Invert):
                return ~v
            if isinstance(e.op, ast.UAdd):
                return +v
        if isinstance(e, ast.BinOp):
            l, r = ev(e.left), ev(e.right)
            if not _known(l, r):
                return UNKNOWN
            if isinstance(l, EnumMember):
                l = l.value
            if isinstance(r, EnumMember):
                r = r.value
            f = _BINOPS.get(type(e.op))
            if f is None or not (_plain(l) and _plain(r)):
                return UNKNOWN
            if isinstance(e.op, (ast.LShift, ast.Pow)) and isinstance(
                    r, int) and r > 4096:
                return UNKNOWN
            return f(l, r)
        if isinstance(e, ast.BoolOp):
            res = None
            for x in e.values:
                v = ev(x)
                if v is UNKNOWN:
                    return UNKNOWN
                res = v
                if isinstance(e.op, ast.And) and not v:
                    return v
                if isinstance(e.op, ast.Or) and v:
                    return v
            return res
        if isinstance(e, ast.Compare):
            l = ev(e.left)
            for op, c in zip(e.ops, e.comparators):
                r = ev(c)
                if not _known(l, r):
                    return UNKNOWN
                if not _CMPOPS[type(op)](l, r):
                    return False
                l = r
            return True
        if isinstance(e, ast.IfExp):
            t = ev(e.test)
            if t is UNKNOWN:
                return UNKNOWN
            return ev(e.body) if t else ev(e.orelse)
        if isinstance(e, ast.Subscript):
            v = ev(e.value)
            if v is UNKNOWN:
                return UNKNOWN
            if isinstance(e.slice, ast.Slice):
                lo = ev(e.slice.lower) if e.slice.lower else None
                hi = ev(e.slice.upper) if e.slice.upper else None
                st = ev(e.slice.step) if e.slice.step else None
                if not _known(lo, hi, st):
                    return UNKNOWN
                return v[lo:hi:st]
            i = ev(e.slice)
            if i is UNKNOWN:
                return UNKNOWN
            if isinstance(v, ClassRef) and self.is_enum(v.cls):
                mem = self.enum_members(v.cls)
                return EnumMember(v.cls, i, mem[i])
            return v[i]
        if isinstance(e, ast.Attribute):
            base = ev(e.value)
            if base is UNKNOWN:
                # module attribute chains (gear.general.DTR0)
                b = self.world.resolve(mod, e)
                if b is not None:
                    if b.kind == "class":
                        return ClassRef(b.value)
                    if b.kind == "classattr":
                        return self.class_attr(b.value[0], b.value[1])
                    if b.kind == "expr":
                        return self.eval(b.value, {}, b.mod)
                return UNKNOWN
            if isinstance(base, ClassRef):
                return self.class_attr(base.cls, e.attr)
            if isinstance(base, EnumMember):
                if e.attr == "value":
                    return base.value
                if e.attr == "name":
                    return base.name
                return UNKNOWN
            if isinstance(base, Record):
                return getattr(base, e.attr, UNKNOWN)
            return UNKNOWN
        if isinstance(e, (ast.GeneratorExp, ast.ListComp, ast.SetComp)):
            out = []
            if not self._comp(e.generators, 0, env, mod, cls, ep,
                              lambda env2: out.append(self._eval(
                                  e.elt, env2, mod, cls, ep))):
                return UNKNOWN
            if not _known(*out):
                return UNKNOWN
            if isinstance(e, ast.SetComp):
                return set(out)
            return list(out)
        if isinstance(e, ast.DictComp):
            out = []
            if not self._comp(e.generators, 0, env, mod, cls, ep,
                              lambda env2: out.append((
                                  self._eval(e.key, env2, mod, cls, ep),
                                  self._eval(e.value, env2, mod, cls, ep)))):
                return UNKNOWN
            if not all(_known(k, v) for k, v in out):
                return UNKNOWN
            return dict(out)
        if isinstance(e, ast.JoinedStr):
            parts = []
            for v in e.values:
                if isinstance(v, ast.Constant):
                    parts.append(str(v.value))
                elif isinstance(v, ast.FormattedValue):
                    x = ev(v.value)
                    if x is UNKNOWN or v.format_spec is not None:
                        return UNKNOWN
                    parts.append(str(x))
            return "".join(parts)
        if isinstance(e, ast.Call):
            return self._call(e, env, mod, cls, ep)
        if isinstance(e, ast.Starred):
            return UNKNOWN
        return UNKNOWN

    def _inline_func(self, fn, fmod, args, kwargs):
        body = [x for x in fn.body if not (isinstance(x, ast.Expr)
                                           and isinstance(x.value,
                                                          ast.Constant))]
        simple = len(body) == 1 and isinstance(body[0], ast.Return) and \
            body[0].value is not None
        env = {}
        params = [a.arg for a in fn.args.args]
        if len(args) > len(params):
            return UNKNOWN
        for pn, a in zip(params, args):
            env[pn] = a
        rest = dict(kwargs)
        for pn in params[len(args):]:
            if pn in rest:
                env[pn] = rest.pop(pn)
            else:
                return UNKNOWN
        if fn.args.kwarg is not None:
            env[fn.args.kwarg.arg] = rest
        elif rest:
            return UNKNOWN
        if simple:
            return self._eval(body[0].value, env, fmod, None, None)
        # a small pure body: locals, a list filled by append in a loop over
        # a constant range, conditionals on constants, one return
        try:
            r = self._exec_pure(body, env, fmod, [0])
        except _NotPure:
            return UNKNOWN
        return r[1] if r is not None else None

    def _exec_pure(self, stmts, env, fmod, budget):
        for st in stmts:
            budget[0] += 1
            if budget[0] > 200000:
                raise _NotPure()
            if isinstance(st, ast.Return):
                v = None if st.value is None else self._eval(
                    st.value, env, fmod, None, None)
                if v is UNKNOWN:
                    raise _NotPure()
                return ("return", v)
            if isinstance(st, ast.Assign) and len(st.targets) == 1 and \
                    isinstance(st.targets[0], ast.Name):
                v = self._eval(st.value, env, fmod, None, None)
                if v is UNKNOWN:
                    raise _NotPure()
                env[st.targets[0].id] = v
                continue
            if isinstance(st, ast.Expr) and isinstance(
                    st.value, ast.Call) and isinstance(
                        st.value.func, ast.Attribute) and isinstance(
                            st.value.func.value, ast.Name) and \
                    st.value.func.attr == "append" and len(
                        st.value.args) == 1 and not st.value.keywords and \
                    isinstance(env.get(st.value.func.value.id), list):
                v = self._eval(st.value.args[0], env, fmod, None, None)
                if v is UNKNOWN:
                    raise _NotPure()
                env[st.value.func.value.id].append(v)
                continue
            if isinstance(st, ast.Expr) and isinstance(st.value,
                                                       ast.Constant):
                continue
            if isinstance(st, ast.Pass):
                continue
            if isinstance(st, ast.If):
                t = self._eval(st.test, env, fmod, None, None)
                if t is UNKNOWN:
                    raise _NotPure()
                r = self._exec_pure(st.body if t else st.orelse, env, fmod,
                                    budget)
                if r is not None:
                    return r
                continue
            if isinstance(st, ast.For) and not st.orelse and isinstance(
                    st.target, ast.Name):
                it = self._eval(st.iter, env, fmod, None, None)
                if it is UNKNOWN:
                    raise _NotPure()
                for item in it:
                    env[st.target.id] = item
                    r = self._exec_pure(st.body, env, fmod, budget)
                    if r is not None:
                        return r
                continue
            raise _NotPure()
        return None

    def _comp(self, gens, i, env, mod, cls, ep, emit):
        if i == len(gens):
            emit(env)
            return True
        g = gens[i]
        it = self._eval(g.iter, env, mod, cls, ep)
        if it is UNKNOWN:
            return False
        n = 0
        for item in it:
            n += 1
            if n > 100000:
                return False
            env2 = dict(env)
            if not self._bind(g.target, item, env2):
                return False
            ok = True
            for c in g.ifs:
                v = self._eval(c, env2, mod, cls, ep)
                if v is UNKNOWN:
                    return False
                if not v:
                    ok = False
                    break
            if ok and not self._comp(gens, i + 1, env2, mod, cls, ep, emit):
                return False
        return True

    def _bind(self, target, value, env):
        if isinstance(target, ast.Name):
            env[target.id] = value
            return True
        if isinstance(target, (ast.Tuple, ast.List)):
            try:
                vals = list(value)
            except TypeError:
                return False
            if len(vals) != len(target.elts):
                return False
            return all(self._bind(t, v, env)
                       for t, v in zip(target.elts, vals))
        return False

    def _call(self, e, env, mod, cls, ep):
        ev = lambda x: self._eval(x, env, mod, cls, ep)   # noqa: E731
        args = []
        for a in e.args:
            if isinstance(a, ast.Starred):
                v = ev(a.value)
                if v is UNKNOWN:
                    return UNKNOWN
                args.extend(list(v))
            else:
                args.append(ev(a))
        kwargs = {k.arg: ev(k.value) for k in e.keywords if k.arg}
        for k in e.keywords:
            if k.arg is None:
                d = ev(k.value)
                if not isinstance(d, dict):
                    return UNKNOWN
                kwargs.update(d)
        f = e.func
        # a module-level functools.partial(F, ...) called by name is the
        # call of F with the frozen arguments put first / underneath
        if isinstance(f, ast.Name) and f.id not in env:
            b = self.world.lookup(mod, f.id)
            pv = getattr(b, "value", None) if b is not None and getattr(
                b, "kind", None) == "expr" else None
            if isinstance(pv, ast.Call) and ast.unparse(pv.func) in (
                    "partial", "functools.partial") and pv.args and not any(
                        isinstance(a, ast.Starred) for a in pv.args) and \
                    all(k.arg for k in pv.keywords) and \
                    getattr(b, "mod", mod) == mod:
                given = {k.arg for k in e.keywords if k.arg}
                merged = ast.Call(
                    pv.args[0], list(pv.args[1:]) + list(e.args),
                    [k for k in pv.keywords if k.arg not in given] +
                    list(e.keywords))
                ast.copy_location(merged, e)
                ast.fix_missing_locations(merged)
                return self._call(merged, env, mod, cls, ep)
        # str.maketrans(...) on constants: a translation table (a dict)
        if isinstance(f, ast.Attribute) and f.attr == "maketrans" and \
                isinstance(f.value, ast.Name) and f.value.id in (
                    "str", "bytes") and f.value.id not in env and \
                not kwargs and args and all(
                    a is not UNKNOWN and _plain(a) for a in args):
            try:
                return getattr({"str": str, "bytes": bytes}[f.value.id],
                               "maketrans")(*args)
            except (TypeError, ValueError):
                return UNKNOWN
        # isinstance(x, T)
        if isinstance(f, ast.Name) and f.id == "isinstance" and len(
                e.args) == 2:
            v = args[0]
            if v is UNKNOWN:
                return UNKNOWN
            t = e.args[1]
            elts = t.elts if isinstance(t, ast.Tuple) else [t]
            res = False
            for x in elts:
                if isinstance(x, ast.Name) and x.id in _TYPES and \
                        x.id not in env:
                    if _plain(v) and not isinstance(v, (EnumMember, ClassRef,
                                                        Record)):
                        if isinstance(v, _TYPES[x.id]):
                            res = True
                    elif isinstance(v, EnumMember) and x.id == "int" and (
                            v.cls.has_ext_base("IntEnum")
                            or v.cls.has_ext_base("IntFlag")):
                        res = True
                else:
                    tv = ev(x)
                    if isinstance(tv, ClassRef) and isinstance(
                            v, EnumMember):
                        if tv.cls in v.cls.mro:
                            res = True
                    elif isinstance(tv, ClassRef) and isinstance(v, Record) \
                            and getattr(v, "cls", None) is not None:
                        if tv.cls in v.cls.mro:
                            res = True
                    elif tv is UNKNOWN:
                        return UNKNOWN
            return res
        if not _known(*args) or not _known(*kwargs.values()):
            # allow hasattr etc. to fall through as UNKNOWN
            return UNKNOWN
        # list(SomeEnum) / tuple(SomeEnum): the members in definition order
        if isinstance(f, ast.Name) and f.id in ("list", "tuple") and \
                f.id not in env and len(args) == 1 and not kwargs and \
                isinstance(args[0], ClassRef) and self.is_enum(args[0].cls):
            mem = self.enum_members(args[0].cls)
            seen, out = set(), []
            for n, v in mem.items():
                if v in seen:
                    continue        # aliases are not iterated
                seen.add(v)
                out.append(EnumMember(args[0].cls, n, v))
            return out if f.id == "list" else tuple(out)
        if isinstance(f, ast.Name) and f.id in _SAFE_FUNCS and \
                f.id not in env and self.world.lookup(mod, f.id) is None:
            a2 = [x.value if isinstance(x, EnumMember) else x for x in args]
            if not all(_plain(x) for x in a2):
                return UNKNOWN
            r = _SAFE_FUNCS[f.id](*a2, **kwargs)
            if isinstance(r, range) and len(r) > 200000:
                return UNKNOWN
            return r
        if isinstance(f, ast.Attribute):
            # int.from_bytes(...)
            if isinstance(f.value, ast.Name) and f.value.id == "int" and \
                    f.attr == "from_bytes":
                return int.from_bytes(*args, **kwargs)
            if isinstance(f.value, ast.Name) and f.value.id == "bytes" and \
                    f.attr == "fromhex":
                return bytes.fromhex(*args)
            base = ev(f.value)
            if base is UNKNOWN:
                pass
            elif isinstance(base, EnumMember) and f.attr in (
                    "to_bytes", "bit_length") and isinstance(base.value, int):
                return getattr(base.value, f.attr)(*args, **kwargs)
            elif type(base) in _SAFE_METHODS and f.attr in _SAFE_METHODS[
                    type(base)]:
                return getattr(base, f.attr)(*args, **kwargs)
        # single-return pure module functions of the repository (MemoryRange)
        if isinstance(f, ast.Name) and f.id not in env:
            b = self.world.lookup(mod, f.id)
            if b is not None and b.kind == "func":
                return self._inline_func(b.value, b.mod, args, kwargs)
        # repository constructors / enums called with a value
        tgt = ev(f) if not isinstance(f, ast.Name) or f.id not in env \
            else env[f.id]
        if isinstance(tgt, ClassRef):
            if self.is_enum(tgt.cls) and len(args) == 1:
                mem = self.enum_members(tgt.cls)
                val = args[0].value if isinstance(args[0], EnumMember) \
                    else args[0]
                for n, v in mem.items():
                    if v == val:
                        return EnumMember(tgt.cls, n, v)
                if tgt.cls.has_ext_base("IntFlag") and isinstance(val, int):
                    return EnumMember(tgt.cls, None, val)
                raise ValueError("not a member")
            if self.ext_call is not None:
                return self.ext_call(self, tgt, args, kwargs)
        return UNKNOWN
