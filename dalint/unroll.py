"""Normalisations that undo "table-driven" spellings, so that the rules read
one statement per command again:

  unroll_const_loops   for x in (A, B, C): BODY      ->  BODY[x:=A]; BODY[x:=B]..
                       (tuple / list displays, a local name bound once to a
                       display, enumerate(..) and zip(..) of those; `continue`
                       is rewritten into if/else first; loops with break /
                       else / unknown iterables are left alone)
  fold_constants       `0 and e` -> 0, `8 and e` -> e, `not 0`, 3 > 2,
                       (a, b, c)[1] -> b, `if <const>:` -> the live branch
  scalarise_lists      acc = [0, 0, 0]; acc[1] = v; f(acc)
                       -> acc__0 = 0; ..; acc__1 = v; f((acc__0, acc__1, acc__2))
                       for a local list that is only indexed by constants and
                       passed whole to a pure consumer (int.from_bytes, bytes,
                       tuple, ...)
  expand_star_kwargs   kw = {"device": d, "instance": i}; C(**kw)
                       -> C(device=d, instance=i)
  unroll_any_all       any(m in v for m in ("a", "b")) -> ("a" in v) or ("b" in v)

Each transformation is behaviour-preserving under the stated side conditions
(checked syntactically; otherwise the code is left as written).  The result
is only analysed, never executed."""
import ast

from .inline import acopy

MAX_ROWS = 16
PURE_CONSUMERS = {"int.from_bytes", "bytes", "tuple", "list", "sum", "max",
                  "min", "len", "bytearray"}


def _is_atomic(e):
    if isinstance(e, ast.Constant):
        return True
    while isinstance(e, ast.Attribute):
        e = e.value
    return isinstance(e, ast.Name)


def _stores(fn):
    out = {}
    for n in ast.walk(fn):
        if isinstance(n, ast.Name) and isinstance(n.ctx, (ast.Store,
                                                          ast.Del)):
            out[n.id] = out.get(n.id, 0) + 1
        elif isinstance(n, ast.ExceptHandler) and n.name:
            out[n.name] = out.get(n.name, 0) + 1
        elif isinstance(n, ast.arg):
            out[n.arg] = out.get(n.arg, 0) + 1
    return out


def _single_defs(fn):
    """name -> value AST for locals assigned exactly once by `name = value`
    at any depth."""
    stores = _stores(fn)
    out = {}
    for n in ast.walk(fn):
        if isinstance(n, ast.Assign) and len(n.targets) == 1 and isinstance(
                n.targets[0], ast.Name) and stores.get(
                    n.targets[0].id) == 1:
            out[n.targets[0].id] = n.value
    return out


def _touched_before(fn, name, loop):
    """A slice bound to `name` is a fresh list; it can only have changed by
    the time `loop` runs if it was stored into, had a method called on it or
    was handed to a call in a statement that precedes the loop in the
    source."""
    if loop is None:
        return True
    lim = getattr(loop, "lineno", 0)
    for n in ast.walk(fn):
        if getattr(n, "lineno", lim) >= lim and not (
                isinstance(n, (ast.For, ast.While)) and n is not loop and any(
                    x is loop for x in ast.walk(n))):
            continue
        if isinstance(n, ast.Call) and any(
                isinstance(a, ast.Name) and a.id == name or (
                    isinstance(a, ast.Starred) and isinstance(
                        a.value, ast.Name) and a.value.id == name)
                for a in n.args):
            return True
        if isinstance(n, ast.Attribute) and isinstance(
                n.value, ast.Name) and n.value.id == name:
            return True
        if isinstance(n, ast.Subscript) and isinstance(
                n.ctx, (ast.Store, ast.Del)) and isinstance(
                    n.value, ast.Name) and n.value.id == name:
            return True
        if isinstance(n, ast.AugAssign) and isinstance(
                n.target, ast.Name) and n.target.id == name:
            return True
    return False


def _mutated(fn, name):
    """Is the object bound to `name` possibly changed or aliased?  Only
    loads as loop iterables / call arguments of zip/enumerate / `**name` /
    constant subscripts count as harmless."""
    for n in ast.walk(fn):
        for ch in ast.iter_child_nodes(n):
            if isinstance(ch, ast.Name) and ch.id == name and isinstance(
                    ch.ctx, ast.Load):
                if isinstance(n, ast.For) and n.iter is ch:
                    continue
                if isinstance(n, ast.Call) and ch in n.args and isinstance(
                        n.func, ast.Name) and n.func.id in (
                            "zip", "enumerate", "len", "max", "min", "sum",
                            "any", "all", "tuple", "list", "sorted", "set",
                            "frozenset", "reversed"):
                    continue
                if isinstance(n, ast.keyword) and n.arg is None:
                    continue
                if isinstance(n, ast.Subscript) and n.value is ch and \
                        isinstance(n.ctx, ast.Load):
                    continue
                if isinstance(n, ast.comprehension) and n.iter is ch:
                    continue
                if isinstance(n, ast.Compare) and ch in n.comparators and \
                        all(isinstance(o, (ast.In, ast.NotIn))
                            for o in n.ops):
                    continue          # membership test
                return True
    return False


class _SubstNames(ast.NodeTransformer):
    def __init__(self, env):
        self.env = env

    def visit_Name(self, n):
        if isinstance(n.ctx, ast.Load) and n.id in self.env:
            return ast.copy_location(acopy(self.env[n.id]), n)
        return n

    def _comp(self, n):
        own = {t.id for g in n.generators for t in ast.walk(g.target)
               if isinstance(t, ast.Name)}
        saved = self.env
        self.env = {k: v for k, v in saved.items() if k not in own}
        try:
            self.generic_visit(n)
        finally:
            self.env = saved
        return n
    visit_ListComp = visit_SetComp = visit_DictComp = visit_GeneratorExp = \
        _comp

    def visit_Lambda(self, n):
        return n

    def visit_Call(self, n):
        self.generic_visit(n)
        # f(*row) with the row a tuple / list display: its elements
        if any(isinstance(a, ast.Starred) and isinstance(
                a.value, (ast.Tuple, ast.List)) and not any(
                    isinstance(e, ast.Starred) for e in a.value.elts)
               for a in n.args):
            args = []
            for a in n.args:
                if isinstance(a, ast.Starred) and isinstance(
                        a.value, (ast.Tuple, ast.List)):
                    args += list(a.value.elts)
                else:
                    args.append(a)
            n.args = args
        return n


# ---------------------------------------------------------------------------
CURRENT_LOOP = [None]
SEQ_LEN = [None]          # ast of a sequence -> its fixed length or None
TABLE_RESOLVER = [None]   # module-level displays: Name -> ast or None
RANGES = [0]     # > 0: constant range(a, b) loops up to that size unroll too


def _rows(it, defs, fn):
    """List of element expressions of a constant iterable, or None."""
    if RANGES[0] and isinstance(it, ast.Call) and isinstance(
            it.func, ast.Name) and it.func.id == "range" and \
            not it.keywords and 1 <= len(it.args) <= 2 and all(
                isinstance(a, ast.Constant) and type(a.value) is int
                for a in it.args):
        lo = it.args[0].value if len(it.args) == 2 else 0
        hi = it.args[-1].value
        if 0 <= hi - lo <= RANGES[0]:
            return [ast.Constant(k) for k in range(lo, hi)]
    if isinstance(it, (ast.Tuple, ast.List)) and not any(
            isinstance(e, ast.Starred) for e in it.elts):
        return list(it.elts)
    if isinstance(it, ast.Name) and it.id in defs and isinstance(
            defs[it.id], (ast.Tuple, ast.List)) and not _mutated(fn, it.id):
        return _rows(defs[it.id], defs, fn)
    if SEQ_LEN[0] is not None and isinstance(it, ast.Subscript) and \
            isinstance(it.slice, ast.Slice) and it.slice.step is None:
        # a constant slice of a sequence of known length: its items
        n = SEQ_LEN[0](it.value)
        lo = it.slice.lower.value if isinstance(
            it.slice.lower, ast.Constant) else (
                0 if it.slice.lower is None else None)
        hi = it.slice.upper.value if isinstance(
            it.slice.upper, ast.Constant) else (
                n if it.slice.upper is None else None)
        if n is not None and type(lo) is int and type(hi) is int and \
                0 <= lo <= hi <= n and hi - lo <= MAX_ROWS:
            return [ast.Subscript(acopy(it.value), ast.Constant(k),
                                  ast.Load()) for k in range(lo, hi)]
    if SEQ_LEN[0] is not None and isinstance(it, ast.Name) and \
            it.id in defs and isinstance(defs[it.id], ast.Subscript) and \
            not _touched_before(fn, it.id, CURRENT_LOOP[0]):
        return _rows(defs[it.id], defs, fn)
    if isinstance(it, ast.Name) and TABLE_RESOLVER[0] is not None and \
            it.id not in _stores(fn):
        t = TABLE_RESOLVER[0](it)
        if isinstance(t, (ast.Tuple, ast.List)):
            return _rows(t, defs, fn)
    if isinstance(it, ast.Call) and isinstance(it.func, ast.Name) and \
            not it.keywords:
        if it.func.id == "enumerate" and 1 <= len(it.args) <= 2:
            start = 0
            if len(it.args) == 2:
                if not (isinstance(it.args[1], ast.Constant) and isinstance(
                        it.args[1].value, int)):
                    return None
                start = it.args[1].value
            r = _rows(it.args[0], defs, fn)
            if r is None:
                return None
            return [ast.Tuple([ast.Constant(start + i), e], ast.Load())
                    for i, e in enumerate(r)]
        if it.func.id == "zip" and it.args:
            cols = [_rows(a, defs, fn) for a in it.args]
            known = [c for c in cols if c is not None]
            if not known or len({len(c) for c in known}) != 1:
                return None
            n = len(known[0])
            for i, a in enumerate(it.args):
                if cols[i] is not None:
                    continue
                # an indexable of exactly n items: x.to_bytes(n, ..)
                src = defs.get(a.id) if isinstance(a, ast.Name) else None
                ln = None
                if isinstance(src, ast.Call) and isinstance(
                        src.func, ast.Attribute) and src.func.attr == \
                        "to_bytes":
                    ln = src.args[0] if src.args else None
                    for k in src.keywords:
                        if k.arg == "length":
                            ln = k.value
                if not (isinstance(ln, ast.Constant) and ln.value == n):
                    return None
                cols[i] = [ast.Subscript(ast.Name(a.id, ast.Load()),
                                         ast.Constant(k), ast.Load())
                           for k in range(n)]
            return [ast.Tuple([c[k] for c in cols], ast.Load())
                    for k in range(n)]
    return None


def _bind(target, elt, env, pre):
    """Bind loop target to an element: substitution for atomic elements,
    an assignment otherwise.  False if the shapes do not fit."""
    if isinstance(target, ast.Name):
        if _is_atomic(elt):
            env[target.id] = elt
        else:
            pre.append(ast.Assign([ast.Name(target.id, ast.Store())],
                                  acopy(elt)))
        return True
    if isinstance(target, (ast.Tuple, ast.List)) and isinstance(
            elt, (ast.Tuple, ast.List)) and len(target.elts) == len(
                elt.elts) and not any(isinstance(x, ast.Starred)
                                      for x in target.elts + elt.elts):
        return all(_bind(t, e, env, pre)
                   for t, e in zip(target.elts, elt.elts))
    return False


def _has(stmts, kinds, stop=(ast.For, ast.AsyncFor, ast.While,
                             ast.FunctionDef, ast.AsyncFunctionDef,
                             ast.ClassDef, ast.Lambda)):
    def walk(n):
        if isinstance(n, kinds):
            return True
        if isinstance(n, stop):
            # `continue`/`break` of an inner loop belong to it; but its
            # orelse does not
            return any(walk(c) for c in getattr(n, "orelse", []))
        return any(walk(c) for c in ast.iter_child_nodes(n))
    return any(walk(s) for s in stmts)


def _elim_continue(stmts):
    """Rewrite `continue` (of the enclosing loop body) into if/else nesting.
    None if a continue sits inside try/with/match."""
    out = []
    for i, s in enumerate(stmts):
        if isinstance(s, ast.Continue):
            return out
        if not _has([s], (ast.Continue,)):
            out.append(s)
            continue
        if not isinstance(s, ast.If):
            return None
        rest = stmts[i + 1:]
        b = _elim_continue(list(s.body) + [acopy(x) for x in rest])
        o = _elim_continue(list(s.orelse) + [acopy(x) for x in rest])
        if b is None or o is None:
            return None
        new = ast.copy_location(ast.If(s.test, b or [ast.Pass()], o), s)
        out.append(new)
        return out
    return out


def unroll_const_loops(fn):
    """Returns (fn, number of loops unrolled); fn is modified in place (pass
    a copy)."""
    count = [0]

    def block(stmts):
        out = []
        for s in stmts:
            for fld in ("body", "orelse", "finalbody"):
                if isinstance(getattr(s, fld, None), list) and not isinstance(
                        s, (ast.FunctionDef, ast.AsyncFunctionDef,
                            ast.ClassDef)) and getattr(s, fld) and \
                        isinstance(getattr(s, fld)[0], ast.stmt):
                    setattr(s, fld, block(getattr(s, fld)))
            if isinstance(s, ast.Try):
                for h in s.handlers:
                    h.body = block(h.body)
            r = one(s) if isinstance(s, ast.For) else None
            if r is None:
                out.append(s)
            else:
                count[0] += 1
                out += r
        return out

    def one(loop):
        if loop.orelse or _has(loop.body, (ast.Break,)):
            return None
        defs = _single_defs(fn)
        CURRENT_LOOP[0] = loop
        try:
            rows = _rows(loop.iter, defs, fn)
        finally:
            CURRENT_LOOP[0] = None
        if rows is None or len(rows) > MAX_ROWS:
            return None
        tnames = {n.id for n in ast.walk(loop.target)
                  if isinstance(n, ast.Name)}
        for n in ast.walk(ast.Module(loop.body, [])):
            if isinstance(n, ast.Name) and n.id in tnames and isinstance(
                    n.ctx, (ast.Store, ast.Del)):
                return None
        body = _elim_continue(list(loop.body))
        if body is None:
            return None
        # locals of one iteration (bound by a plain assignment before any
        # use in the body, dead after the loop) get a name per iteration:
        # `r = yield q(a); acc.append(r.raw_value)` keeps two answers apart
        per_iter = set()
        if len(rows) > 1:
            for st_ in body:
                if isinstance(st_, ast.Assign) and len(
                        st_.targets) == 1 and isinstance(
                            st_.targets[0], ast.Name):
                    nm = st_.targets[0].id
                    if nm in per_iter or nm in tnames:
                        continue
                    earlier = body[:body.index(st_)]
                    if any(isinstance(n, ast.Name) and n.id == nm
                           for e_ in earlier for n in ast.walk(e_)) or any(
                               isinstance(n, ast.Name) and n.id == nm
                               for n in ast.walk(st_.value)):
                        continue
                    if _loaded_outside(fn, loop, nm) or any(
                            isinstance(n, (ast.Global, ast.Nonlocal))
                            for n in ast.walk(fn)):
                        continue
                    per_iter.add(nm)
        res = []
        for k_, elt in enumerate(rows):
            env, pre = {}, []
            if not _bind(loop.target, elt, env, pre):
                return None
            sub = _SubstNames(env)
            copy_ = [sub.visit(acopy(b)) for b in body]
            if per_iter:
                for c_ in copy_:
                    for n in ast.walk(c_):
                        if isinstance(n, ast.Name) and n.id in per_iter:
                            n.id = "%s__%d" % (n.id, k_)
            for p in pre:
                ast.copy_location(p, loop)
            res += pre + copy_
        # the loop variables keep their last value
        if rows:
            env, pre = {}, []
            _bind(loop.target, rows[-1], env, pre)
            for k, v in env.items():
                if _loaded_outside(fn, loop, k):
                    res.append(ast.copy_location(ast.Assign(
                        [ast.Name(k, ast.Store())], acopy(v)), loop))
        for x in res:
            ast.fix_missing_locations(x)
        return res or [ast.copy_location(ast.Pass(), loop)]

    fn.body = block(fn.body)
    return fn, count[0]


def _loaded_outside(fn, loop, name):
    inside = {id(n) for n in ast.walk(loop)}
    return any(isinstance(n, ast.Name) and n.id == name and isinstance(
        n.ctx, ast.Load) and id(n) not in inside for n in ast.walk(fn))


# ---------------------------------------------------------------------------
def _truth(c):
    return bool(c.value)


class _Fold(ast.NodeTransformer):
    def visit_BoolOp(self, n):
        self.generic_visit(n)
        vals = []
        is_and = isinstance(n.op, ast.And)
        for i, v in enumerate(n.values):
            last = i == len(n.values) - 1
            if isinstance(v, ast.Constant):
                t = _truth(v)
                if t != is_and:      # short-circuits here
                    vals.append(v)
                    break
                if last:
                    vals.append(v)
                continue             # neutral element, dropped
            vals.append(v)
        if len(vals) == 1:
            return vals[0]
        n.values = vals
        return n

    def visit_UnaryOp(self, n):
        self.generic_visit(n)
        if isinstance(n.op, ast.Not) and isinstance(n.operand, ast.Constant):
            return ast.copy_location(ast.Constant(not _truth(n.operand)), n)
        if isinstance(n.op, ast.USub) and isinstance(
                n.operand, ast.Constant) and isinstance(
                    n.operand.value, int) and not isinstance(
                        n.operand.value, bool):
            return n        # negative literal stays as written
        return n

    def visit_Compare(self, n):
        self.generic_visit(n)
        if len(n.ops) == 1 and isinstance(n.left, ast.Constant) and \
                isinstance(n.comparators[0], ast.Constant):
            a, b = n.left.value, n.comparators[0].value
            if type(a) in (int, str) and type(a) is type(b):
                op = n.ops[0]
                r = None
                if isinstance(op, ast.Eq):
                    r = a == b
                elif isinstance(op, ast.NotEq):
                    r = a != b
                elif isinstance(a, int):
                    if isinstance(op, ast.Lt):
                        r = a < b
                    elif isinstance(op, ast.LtE):
                        r = a <= b
                    elif isinstance(op, ast.Gt):
                        r = a > b
                    elif isinstance(op, ast.GtE):
                        r = a >= b
                if r is not None:
                    return ast.copy_location(ast.Constant(r), n)
        return n

    def visit_BinOp(self, n):
        self.generic_visit(n)
        # x >> 0, x << 0, x + 0, x | 0 are x
        if isinstance(n.right, ast.Constant) and type(
                n.right.value) is int and n.right.value == 0 and isinstance(
                    n.op, (ast.RShift, ast.LShift, ast.Add, ast.Sub,
                           ast.BitOr, ast.BitXor)):
            return n.left
        if isinstance(n.left, ast.Constant) and isinstance(
                n.right, ast.Constant) and type(n.left.value) is int and \
                type(n.right.value) is int:
            a, b = n.left.value, n.right.value
            op = n.op
            r = None
            if isinstance(op, ast.Add):
                r = a + b
            elif isinstance(op, ast.Sub):
                r = a - b
            elif isinstance(op, ast.Mult) and abs(a) < 2 ** 40 and \
                    abs(b) < 2 ** 40:
                r = a * b
            elif isinstance(op, ast.LShift) and 0 <= b < 64:
                r = a << b
            elif isinstance(op, ast.RShift) and 0 <= b < 64:
                r = a >> b
            elif isinstance(op, ast.BitAnd):
                r = a & b
            elif isinstance(op, ast.BitOr):
                r = a | b
            elif isinstance(op, ast.FloorDiv) and b != 0:
                r = a // b
            elif isinstance(op, ast.Mod) and b != 0:
                r = a % b
            if r is not None and r >= 0:
                return ast.copy_location(ast.Constant(r), n)
        return n

    def visit_Call(self, n):
        self.generic_visit(n)
        # max((a, b)) is max(a, b)
        if isinstance(n.func, ast.Name) and n.func.id in ("max", "min") \
                and len(n.args) == 1 and not n.keywords and isinstance(
                    n.args[0], (ast.Tuple, ast.List)) and len(
                        n.args[0].elts) >= 2 and not any(
                            isinstance(x, ast.Starred)
                            for x in n.args[0].elts):
            return ast.copy_location(ast.Call(n.func, list(n.args[0].elts),
                                              []), n)
        # getattr(x, "name") is x.name
        if isinstance(n.func, ast.Name) and n.func.id == "getattr" and len(
                n.args) == 2 and not n.keywords and isinstance(
                    n.args[1], ast.Constant) and isinstance(
                        n.args[1].value, str) and \
                n.args[1].value.isidentifier():
            return ast.copy_location(ast.Attribute(
                n.args[0], n.args[1].value, ast.Load()), n)
        return n

    def visit_IfExp(self, n):
        self.generic_visit(n)
        if isinstance(n.test, ast.Constant):
            return n.body if _truth(n.test) else n.orelse
        return n

    def visit_Subscript(self, n):
        self.generic_visit(n)
        if isinstance(n.ctx, ast.Load) and isinstance(
                n.value, (ast.Tuple, ast.List)) and isinstance(
                    n.slice, ast.Constant) and type(n.slice.value) is int \
                and -len(n.value.elts) <= n.slice.value < len(
                    n.value.elts) and all(_is_atomic(e)
                                          for e in n.value.elts):
            return n.value.elts[n.slice.value]
        return n


def fold_constants(fn):
    _Fold().visit(fn)

    def block(stmts):
        out = []
        for s in stmts:
            for fld in ("body", "orelse", "finalbody"):
                if isinstance(getattr(s, fld, None), list) and not isinstance(
                        s, (ast.FunctionDef, ast.AsyncFunctionDef,
                            ast.ClassDef)) and getattr(s, fld) and \
                        isinstance(getattr(s, fld)[0], ast.stmt):
                    setattr(s, fld, block(getattr(s, fld)))
            if isinstance(s, ast.Try):
                for h in s.handlers:
                    h.body = block(h.body)
            if isinstance(s, ast.If) and isinstance(s.test, ast.Constant):
                out += s.body if _truth(s.test) else s.orelse
                if any(isinstance(x, (ast.Raise, ast.Return, ast.Break,
                                      ast.Continue)) for x in out[-1:]):
                    break          # what follows cannot be reached
                continue
            if isinstance(s, ast.If) and not s.body:
                s.body = [ast.copy_location(ast.Pass(), s)]
            if isinstance(s, ast.If) and s.orelse and all(
                    isinstance(x, ast.Pass) for x in s.body):
                # if c: pass / else: X   ->   if not c: X
                t = s.test
                if isinstance(t, ast.UnaryOp) and isinstance(t.op, ast.Not):
                    t = t.operand
                else:
                    t = ast.copy_location(ast.UnaryOp(ast.Not(), t), t)
                s = ast.copy_location(ast.If(t, s.orelse, []), s)
            out.append(s)
        return out
    fn.body = block(fn.body) or [ast.Pass()]
    ast.fix_missing_locations(fn)
    return fn


# ---------------------------------------------------------------------------
def scalarise_lists(fn):
    """Returns number of lists replaced."""
    done = 0
    defs = _single_defs(fn)
    for name, v in list(defs.items()):
        elts = None
        if isinstance(v, ast.List) and not any(isinstance(
                e, ast.Starred) for e in v.elts) and 0 < len(
                    v.elts) <= MAX_ROWS:
            elts = list(v.elts)
        elif isinstance(v, ast.BinOp) and isinstance(v.op, ast.Mult) and \
                isinstance(v.left, ast.List) and len(v.left.elts) == 1 and \
                isinstance(v.left.elts[0], ast.Constant) and isinstance(
                    v.right, ast.Constant) and type(v.right.value) is int \
                and 0 < v.right.value <= MAX_ROWS:
            elts = [v.left.elts[0]] * v.right.value
        if elts is None:
            continue
        n = len(elts)
        ok = True
        uses = []
        parents = {}
        for p in ast.walk(fn):
            for ch in ast.iter_child_nodes(p):
                parents[id(ch)] = p
        for x in ast.walk(fn):
            if not (isinstance(x, ast.Name) and x.id == name):
                continue
            p = parents.get(id(x))
            if isinstance(x.ctx, ast.Store):
                if isinstance(p, ast.Assign) and p.value is v:
                    continue
                ok = False
                break
            if isinstance(p, ast.Subscript) and p.value is x and isinstance(
                    p.slice, ast.Constant) and type(p.slice.value) is int \
                    and 0 <= p.slice.value < n:
                uses.append(("idx", p, p.slice.value))
                continue
            if isinstance(p, ast.Call) and x in p.args and ast.unparse(
                    p.func) in PURE_CONSUMERS:
                uses.append(("whole", x, None))
                continue
            ok = False
            break
        if not ok:
            continue
        # element stores must be plain statements `name[k] = value`
        for (k, node, i) in uses:
            if k == "idx" and isinstance(node.ctx, ast.Store):
                p = parents.get(id(node))
                if not (isinstance(p, ast.Assign) and len(p.targets) == 1
                        and p.targets[0] is node):
                    ok = False
        if not ok:
            continue

        class R(ast.NodeTransformer):
            def visit_Assign(self, a):
                if a.value is v:
                    out = []
                    for i, e in enumerate(elts):
                        out.append(ast.copy_location(ast.Assign(
                            [ast.Name("%s__%d" % (name, i), ast.Store())],
                            acopy(e)), a))
                    return out
                return self.generic_visit(a)

            def visit_Subscript(self, s_):
                if isinstance(s_.value, ast.Name) and s_.value.id == name \
                        and isinstance(s_.slice, ast.Constant):
                    return ast.copy_location(ast.Name(
                        "%s__%d" % (name, s_.slice.value), s_.ctx), s_)
                return self.generic_visit(s_)

            def visit_Name(self, x):
                if x.id == name and isinstance(x.ctx, ast.Load):
                    return ast.copy_location(ast.Tuple(
                        [ast.Name("%s__%d" % (name, i), ast.Load())
                         for i in range(n)], ast.Load()), x)
                return x
        R().visit(fn)
        done += 1
    if done:
        ast.fix_missing_locations(fn)
    return done


# ---------------------------------------------------------------------------
def expand_star_kwargs(fn):
    defs = _single_defs(fn)
    cnt = [0]

    def table(name):
        v = defs.get(name)
        if isinstance(v, ast.Dict) and all(
                isinstance(k, ast.Constant) and isinstance(k.value, str)
                and k.value.isidentifier() for k in v.keys) and all(
                    _is_atomic(x) for x in v.values) and not _mutated(
                        fn, name):
            return v
        if isinstance(v, ast.Call) and isinstance(v.func, ast.Name) and \
                v.func.id == "dict" and not v.args and all(
                    k.arg is not None and _is_atomic(k.value)
                    for k in v.keywords) and not _mutated(fn, name):
            return ast.Dict([ast.Constant(k.arg) for k in v.keywords],
                            [k.value for k in v.keywords])
        return None

    # the values must still mean the same at the call: the dict is built by
    # a top-level statement of the function and the names it reads are not
    # assigned in any later statement
    def stable(dname, t):
        idx = None
        for i, st in enumerate(fn.body):
            if isinstance(st, ast.Assign) and st.value is defs.get(dname):
                idx = i
        if idx is None:
            return False
        names = {n.id for x in t.values for n in ast.walk(x)
                 if isinstance(n, ast.Name)}
        for st in fn.body[idx + 1:]:
            for n in ast.walk(st):
                if isinstance(n, ast.Name) and n.id in names and isinstance(
                        n.ctx, (ast.Store, ast.Del)):
                    return False
        return True

    class X(ast.NodeTransformer):
        def visit_Call(self, c):
            self.generic_visit(c)
            new = []
            for k in c.keywords:
                if k.arg is None and isinstance(k.value, ast.Name):
                    t = table(k.value.id)
                    if t is not None and stable(k.value.id, t):
                        for kk, vv in zip(t.keys, t.values):
                            new.append(ast.keyword(kk.value, acopy(vv)))
                        cnt[0] += 1
                        continue
                new.append(k)
            c.keywords = new
            return c
    X().visit(fn)
    if cnt[0]:
        ast.fix_missing_locations(fn)
    return cnt[0]


def unroll_any_all(fn):
    defs = _single_defs(fn)
    cnt = [0]

    class X(ast.NodeTransformer):
        def visit_Call(self, c):
            self.generic_visit(c)
            if isinstance(c.func, ast.Name) and c.func.id in ("any", "all") \
                    and len(c.args) == 1 and not c.keywords and isinstance(
                        c.args[0], (ast.GeneratorExp, ast.ListComp)) and \
                    len(c.args[0].generators) == 1:
                g = c.args[0].generators[0]
                if g.ifs or g.is_async:
                    return c
                rows = _rows(g.iter, defs, fn)
                if rows is None or not rows or len(rows) > MAX_ROWS:
                    return c
                vals = []
                for elt in rows:
                    env, pre = {}, []
                    if not _bind(g.target, elt, env, pre) or pre:
                        return c
                    vals.append(_SubstNames(env).visit(acopy(c.args[0].elt)))
                cnt[0] += 1
                if len(vals) == 1:
                    return ast.copy_location(ast.Call(
                        ast.Name("bool", ast.Load()), vals, []), c)
                return ast.copy_location(ast.BoolOp(
                    ast.Or() if c.func.id == "any" else ast.And(), vals), c)
            return c
    X().visit(fn)
    if cnt[0]:
        ast.fix_missing_locations(fn)
    return cnt[0]


def fold_module_constants(fn, world, modname):
    """Loads of module-level names bound once to an int / str / bytes
    literal are written as the literal (`_LATCH = 0xAA` ... `f(_LATCH)`).
    Returns the number of substitutions (fn modified in place)."""
    local = set(_stores(fn))
    cnt = [0]
    cache = {}

    def const_of(name):
        if name not in cache:
            v = None
            try:
                b = world.ns.get(modname, {}).get(name)
            except Exception:
                b = None
            if b is not None and getattr(b, "kind", None) == "expr" and \
                    getattr(b, "mod", modname) == modname:
                e = getattr(b, "value", None)
                if isinstance(e, ast.Constant) and type(e.value) in (
                        int, str, bytes):
                    v = e
                elif isinstance(e, ast.UnaryOp) and isinstance(
                        e.op, ast.USub) and isinstance(
                            e.operand, ast.Constant) and type(
                                e.operand.value) is int:
                    v = e
                elif isinstance(e, ast.Call) and isinstance(
                        e.func, ast.Name) and e.func.id == "range" and \
                        not e.keywords and 1 <= len(e.args) <= 2:
                    # `_ALL = range(_COUNT)`: a range of module constants
                    cache[name] = None       # (no recursion through itself)
                    args = []
                    for a in e.args:
                        if isinstance(a, ast.Name):
                            a = const_of(a.id)
                        if not (isinstance(a, ast.Constant) and type(
                                a.value) is int):
                            args = None
                            break
                        args.append(a)
                    if args is not None:
                        v = ast.Call(ast.Name("range", ast.Load()),
                                     [acopy(a) for a in args], [])
            cache[name] = v
        return cache[name]

    class X(ast.NodeTransformer):
        def visit_Name(self, n):
            if isinstance(n.ctx, ast.Load) and n.id not in local:
                v = const_of(n.id)
                if v is not None:
                    cnt[0] += 1
                    return ast.copy_location(acopy(v), n)
            return n
    X().visit(fn)
    return cnt[0]


def detable(fn, ranges=0):
    """All of the above on a copy of fn; returns (fn, what was done).
    ranges > 0 also unrolls `for i in range(<const>, <const>)` loops of at
    most that many iterations."""
    fn = acopy(fn)
    info = {}
    saved = RANGES[0]
    RANGES[0] = ranges
    try:
        return _detable(fn, info)
    finally:
        RANGES[0] = saved


def _detable(fn, info):
    info["kwargs"] = expand_star_kwargs(fn)
    info["anyall"] = unroll_any_all(fn)
    info["comps"] = unroll_collection_comps(fn) if RANGES[0] else 0
    fn, info["loops"] = unroll_const_loops(fn)
    # loops nested in unrolled ones (their tables are constants only now)
    for _ in range(3):
        if not info["loops"]:
            break
        fold_constants(fn)
        fn, more = unroll_const_loops(fn)
        if not more:
            break
        info["loops"] += more
    if info["loops"] or info["anyall"] or info["comps"]:
        fold_constants(fn)
    info["lists"] = scalarise_lists(fn) if info["loops"] else 0
    ast.fix_missing_locations(fn)
    return fn, info


# ---------------------------------------------------------------------------
def expand_table_lookups(fn, resolve_table, nonnull=None, max_rest=40,
                         only_stmt=False):
    """Lookups in a constant table become the if-chain they abbreviate:

        f = T.get(k)           if k == K1: REST[f := V1]
        REST              ->   elif k == K2: REST[f := V2]
                               else: REST[f := None]
        return T.get(k, d) ->  if k == K1: return V1 ... else: return d
        return T[k]        ->  ... else: raise KeyError(k)   (dict)
                               elif 0 <= k < n chain; otherwise unchanged
                                                              (tuple / list)

    `resolve_table(expr)` gives the display (ast.Dict / Tuple / List) an
    expression such as `self._TABLE` is bound to, or None.  After the
    substitution `V is None` is decided for values that cannot be None and a
    call of a lambda value is beta-reduced.  Returns the number of lookups
    expanded (fn is modified in place: pass a copy)."""
    count = [0]
    nonnull = nonnull or (lambda e: False)

    def lookup(e):
        """(table display, key expr, default expr or 'raise') or None"""
        if isinstance(e, ast.Call) and isinstance(e.func, ast.Attribute) \
                and e.func.attr == "get" and 1 <= len(e.args) <= 2 and \
                not e.keywords:
            t = e.func.value if isinstance(e.func.value, ast.Dict) \
                else resolve_table(e.func.value)
            if isinstance(t, ast.Dict):
                return t, e.args[0], (e.args[1] if len(e.args) == 2
                                      else ast.Constant(None))
        if isinstance(e, ast.Subscript) and isinstance(e.ctx, ast.Load) and \
                not isinstance(e.slice, ast.Slice):
            t = resolve_table(e.value)
            if isinstance(t, (ast.Dict, ast.Tuple, ast.List)):
                return t, e.slice, "raise"
        return None

    def rows(t):
        if isinstance(t, ast.Dict):
            def keyok(k):
                # a constant, or a class constant written self.X / cls.X
                if isinstance(k, ast.Constant) or (
                        isinstance(k, ast.Attribute) and isinstance(
                            k.value, ast.Name) and k.value.id in ("self",
                                                                  "cls")):
                    return True
                # a member of an enumeration written Class.MEMBER /
                # Outer.Class.MEMBER (upper-case member of a dotted name)
                x = k
                if isinstance(x, ast.Attribute) and x.attr.isupper():
                    while isinstance(x, ast.Attribute):
                        x = x.value
                    return isinstance(x, ast.Name)
                return False
            if any(k is None or not keyok(k) for k in t.keys):
                return None
            return list(zip(t.keys, t.values))
        if any(isinstance(x, ast.Starred) for x in t.elts):
            return None
        return [(ast.Constant(i), v) for i, v in enumerate(t.elts)]

    def pure(e):
        return not any(isinstance(n, (ast.Call, ast.Await, ast.Yield,
                                      ast.YieldFrom, ast.NamedExpr))
                       for n in ast.walk(e))

    def chain(key, rws, mk, default_block, seq=False):
        out = default_block
        keys = [k.value for (k, v) in rws if isinstance(k, ast.Constant)]
        boolkey = len(keys) == len(rws) and all(
            type(k) is bool for k in keys) and isinstance(
                key, (ast.Compare, ast.BoolOp, ast.UnaryOp)) and not (
                    isinstance(key, ast.BoolOp))
        for (k, v) in reversed(rws):
            if boolkey:
                # a table indexed by the outcome of a test
                test = acopy(key) if k.value else ast.UnaryOp(
                    ast.Not(), acopy(key))
            else:
                test = ast.Compare(acopy(key), [ast.Eq()], [acopy(k)])
            out = [ast.If(test, mk(v), out)]
        return out

    def stmt_lookup(s):
        """The one table lookup inside an expression statement (typically
        `yield T[k](args)`), or None."""
        found = []
        for n in ast.walk(s):
            lk = lookup(n)
            if lk is not None:
                found.append((n, lk))
        return found[0] if len(found) == 1 else None

    def block(stmts):
        out = []
        i = 0
        while i < len(stmts):
            s = stmts[i]
            for fld in ("body", "orelse", "finalbody"):
                sub = getattr(s, fld, None)
                if isinstance(sub, list) and sub and isinstance(
                        sub[0], ast.stmt) and not isinstance(
                            s, (ast.FunctionDef, ast.AsyncFunctionDef,
                                ast.ClassDef)):
                    setattr(s, fld, block(sub))
            if isinstance(s, ast.Try):
                for h in s.handlers:
                    h.body = block(h.body)
            if isinstance(s, ast.Return) and s.value is not None and \
                    not only_stmt:
                lk = lookup(s.value)
                if lk is not None and pure(lk[1]):
                    t, key, dflt = lk
                    rws = rows(t)
                    if rws is not None and len(rws) <= MAX_ROWS:
                        if dflt == "raise":
                            if isinstance(t, ast.Dict):
                                tail = [ast.Raise(ast.Call(ast.Name(
                                    "KeyError", ast.Load()), [acopy(key)],
                                    []), None)]
                            else:
                                # outside 0..n-1: negative indices count
                                # from the end, larger ones raise
                                tail = [ast.If(
                                    ast.Compare(acopy(key), [ast.GtE()],
                                                [ast.Constant(len(rws))]),
                                    [ast.Raise(ast.Call(ast.Name(
                                        "IndexError", ast.Load()), [], []),
                                        None)],
                                    [acopy(s)])]
                        else:
                            tail = [ast.Return(acopy(dflt))]
                        new = chain(key, rws,
                                    lambda v: [ast.Return(acopy(v))], tail)
                        for x in new:
                            ast.copy_location(x, s)
                            ast.fix_missing_locations(x)
                        out += new
                        count[0] += 1
                        i += 1
                        continue
            if isinstance(s, ast.Expr):
                fl = stmt_lookup(s)
                if fl is not None and only_stmt and not any(
                        isinstance(n, ast.Call) and n.func is fl[0]
                        for n in ast.walk(s)):
                    fl = None      # data tables are left to the rules
                if fl is not None and pure(fl[1][1]):
                    node, (t, key, dflt) = fl
                    rws = rows(t)
                    if rws is not None and len(rws) <= MAX_ROWS:
                        idx = [k_ for k_, n in enumerate(ast.walk(s))
                               if n is node][0]

                        def mk(v, s=s, idx=idx):
                            c = acopy(s)
                            tgt = list(ast.walk(c))[idx]

                            class R(ast.NodeTransformer):
                                def visit(self, n):
                                    if n is tgt:
                                        return acopy(v)
                                    return super().visit(n)
                            return [R().visit(c)]
                        if dflt == "raise":
                            tail = [ast.Raise(ast.Call(ast.Name(
                                "KeyError" if isinstance(t, ast.Dict)
                                else "IndexError", ast.Load()), [], []),
                                None)]
                            if not isinstance(t, ast.Dict):
                                tail = None
                        else:
                            tail = mk(dflt)
                        if tail is not None:
                            new = chain(key, rws, mk, tail)
                            for x in new:
                                ast.copy_location(x, s)
                                ast.fix_missing_locations(x)
                            out += new
                            count[0] += 1
                            i += 1
                            continue
            if isinstance(s, ast.Assign) and len(s.targets) == 1 and \
                    isinstance(s.targets[0], ast.Name) and not only_stmt:
                lk = lookup(s.value)
                name = s.targets[0].id
                rest = stmts[i + 1:]
                if lk is not None and pure(lk[1]) and lk[2] != "raise" and \
                        isinstance(lk[0], ast.Dict) and len(
                            list(ast.walk(ast.Module(rest, [])))) < \
                        max_rest * 12 and not any(
                            isinstance(n, ast.Name) and n.id == name and
                            isinstance(n.ctx, (ast.Store, ast.Del))
                            for r in rest for n in ast.walk(r)) and not any(
                                isinstance(n, ast.Name) and isinstance(
                                    n.ctx, ast.Store) and n.id in {
                                        x.id for x in ast.walk(lk[1])
                                        if isinstance(x, ast.Name)}
                                for r in rest for n in ast.walk(r)):
                    t, key, dflt = lk
                    rws = rows(t)
                    if rws is not None and len(rws) <= MAX_ROWS:
                        def mk(v, rest=rest, name=name):
                            v2 = acopy(v)
                            if isinstance(v2, ast.Lambda) or nonnull(v2):
                                v2._nonnull = True
                            env = {name: v2}
                            body = [_SubstKeep(env).visit(acopy(r))
                                    for r in rest]
                            return block(body) or [ast.Pass()]
                        new = chain(key, rws, mk, mk(dflt))
                        for x in new:
                            ast.copy_location(x, s)
                            ast.fix_missing_locations(x)
                        out += new
                        count[0] += 1
                        break        # rest has been consumed
            out.append(s)
            i += 1
        return out
    fn.body = block(fn.body)
    if count[0]:
        _BetaNull().visit(fn)
        fold_constants(fn)
    return count[0]


class _SubstKeep(_SubstNames):
    """Substitution that keeps the _nonnull mark of the inserted value."""

    def visit_Name(self, n):
        if isinstance(n.ctx, ast.Load) and n.id in self.env:
            v = acopy(self.env[n.id])
            if getattr(self.env[n.id], "_nonnull", False):
                v._nonnull = True
            return ast.copy_location(v, n)
        return n


class _BetaNull(ast.NodeTransformer):
    """(lambda a: E)(x) -> E[a := x];  V is None -> False for table values
    that are not None; None is None -> True."""

    def visit_Call(self, n):
        self.generic_visit(n)
        f = n.func
        if isinstance(f, ast.Lambda) and not n.keywords and not (
                f.args.vararg or f.args.kwarg or f.args.kwonlyargs or
                f.args.defaults) and len(f.args.args) == len(n.args) and all(
                    _is_atomic(a) for a in n.args):
            env = {p.arg: a for p, a in zip(f.args.args, n.args)}
            return _SubstNames(env).visit(acopy(f.body))
        return n

    def visit_Compare(self, n):
        self.generic_visit(n)
        if len(n.ops) == 1 and isinstance(n.ops[0], (ast.Is, ast.IsNot)) \
                and isinstance(n.comparators[0], ast.Constant) and \
                n.comparators[0].value is None:
            l = n.left
            r = None
            if isinstance(l, ast.Constant):
                r = l.value is None
            elif getattr(l, "_nonnull", False) or isinstance(l, ast.Lambda):
                r = False
            if r is not None:
                if isinstance(n.ops[0], ast.IsNot):
                    r = not r
                return ast.copy_location(ast.Constant(r), n)
        return n


def class_table_resolver(world, cls, modname):
    """resolve_table callback: `self.X` / `cls.X` / `<ClassName>.X` bound to
    a display in the class body, or a module-level name bound to one."""
    def resolve(e):
        if isinstance(e, ast.Attribute) and isinstance(e.value, ast.Name) \
                and cls is not None and (e.value.id in ("self", "cls") or
                                         e.value.id == cls.name):
            r = cls.lookup(e.attr)
            if r is not None and r[1] == "attr" and isinstance(
                    r[2], (ast.Dict, ast.Tuple, ast.List)):
                t = r[2]
                if isinstance(t, ast.Dict) and any(
                        isinstance(k, ast.Name) for k in t.keys):
                    # keys written with the bare names of the class body
                    # (`_OK: ...`) are `self._OK` where the table is used
                    t = acopy(t)
                    for i, k in enumerate(t.keys):
                        if isinstance(k, ast.Name):
                            rk = r[0].lookup(k.id)
                            if rk is not None and rk[1] == "attr":
                                t.keys[i] = ast.copy_location(ast.Attribute(
                                    ast.Name(e.value.id, ast.Load()), k.id,
                                    ast.Load()), k)
                    ast.fix_missing_locations(t)
                if isinstance(t, ast.Dict) and any(
                        isinstance(v, ast.Name) and v.id in r[0].methods
                        for v in t.values):
                    # values written with the bare names of methods defined
                    # in the class body (`_MODE: _handle_x`) are called as
                    # `h(self, data)`: the function that calls the method
                    if t is r[2]:
                        t = acopy(t)
                    for i, v in enumerate(t.values):
                        if isinstance(v, ast.Name) and v.id in r[0].methods:
                            m = r[0].methods[v.id][1]
                            a_ = m.args
                            if a_.vararg or a_.kwarg or a_.kwonlyargs or \
                                    a_.defaults or a_.posonlyargs or \
                                    not a_.args:
                                continue
                            ps_ = [x.arg for x in a_.args]
                            t.values[i] = ast.copy_location(ast.Lambda(
                                ast.arguments(
                                    posonlyargs=[], args=[
                                        ast.arg(x) for x in ps_],
                                    kwonlyargs=[], kw_defaults=[],
                                    defaults=[]),
                                ast.Call(ast.Attribute(
                                    ast.Name(ps_[0], ast.Load()), v.id,
                                    ast.Load()), [ast.Name(x, ast.Load())
                                                  for x in ps_[1:]], [])), v)
                    ast.fix_missing_locations(t)
                return t
        if isinstance(e, ast.Name):
            b = world.lookup(modname, e.id)
            v = getattr(b, "value", None) if b is not None and getattr(
                b, "kind", None) == "expr" else None
            if isinstance(v, (ast.Dict, ast.Tuple, ast.List)):
                return v
        return None

    def nonnull(e):
        try:
            return world.resolve_class(modname, e) is not None
        except Exception:
            return False
    return resolve, nonnull


def unroll_collection_comps(fn):
    """`T = {E for x in ROWS if C}` (set / list comprehension over a constant
    table or, with RANGES, a constant range) as the accumulation it
    abbreviates: `T = set(); if C[x:=r]: T.add(E[x:=r]) ...` - for
    assignments to a plain name and for returns.  Returns the count."""
    defs = _single_defs(fn)
    cnt = [0]

    def expand(comp, acc):
        if len(comp.generators) != 1:
            return None
        g = comp.generators[0]
        if g.is_async:
            return None
        rows = _rows(g.iter, defs, fn)
        if rows is None or len(rows) > MAX_ROWS:
            return None
        out = []
        meth = "add" if isinstance(comp, ast.SetComp) else "append"
        for elt in rows:
            env, pre = {}, []
            if not _bind(g.target, elt, env, pre) or pre:
                return None
            sub = _SubstNames(env)
            call = ast.Expr(ast.Call(ast.Attribute(
                ast.Name(acc, ast.Load()), meth, ast.Load()),
                [sub.visit(acopy(comp.elt))], []))
            if g.ifs:
                test = sub.visit(acopy(g.ifs[0])) if len(g.ifs) == 1 else \
                    ast.BoolOp(ast.And(), [sub.visit(acopy(t))
                                           for t in g.ifs])
                out.append(ast.If(test, [call], []))
            else:
                out.append(call)
        return out

    def block(stmts):
        out = []
        for s in stmts:
            for fld in ("body", "orelse", "finalbody"):
                sub = getattr(s, fld, None)
                if isinstance(sub, list) and sub and isinstance(
                        sub[0], ast.stmt) and not isinstance(
                            s, (ast.FunctionDef, ast.AsyncFunctionDef,
                                ast.ClassDef)):
                    setattr(s, fld, block(sub))
            v = getattr(s, "value", None)
            if isinstance(s, (ast.Assign, ast.Return)) and isinstance(
                    v, (ast.SetComp, ast.ListComp)) and (
                        isinstance(s, ast.Return) or (
                            len(s.targets) == 1 and isinstance(
                                s.targets[0], ast.Name))):
                cnt[0] += 1
                acc = s.targets[0].id if isinstance(s, ast.Assign) else \
                    "__comp_%d" % cnt[0]
                body = expand(v, acc)
                if body is not None:
                    init = ast.Assign([ast.Name(acc, ast.Store())], ast.Call(
                        ast.Name("set" if isinstance(v, ast.SetComp)
                                 else "list", ast.Load()), [], []))
                    new = [init] + body
                    if isinstance(s, ast.Return):
                        new.append(ast.Return(ast.Name(acc, ast.Load())))
                    for x in new:
                        ast.copy_location(x, s)
                        ast.fix_missing_locations(x)
                    out += new
                    continue
                cnt[0] -= 1
            out.append(s)
        return out
    fn.body = block(fn.body)
    return cnt[0]


def fold_or_idiom(fn):
    """`t = A; if t: return t; [else:] return B`  ->  `return A or B`
    (also `return t if t else B`), when t is read nowhere else.  The two
    spellings evaluate A once and B only when A is falsy.  Returns the number
    of folds (fn modified in place)."""
    cnt = [0]

    def loads(name):
        return sum(1 for n in ast.walk(fn) if isinstance(n, ast.Name) and
                   n.id == name and isinstance(n.ctx, ast.Load))

    def block(stmts):
        out = []
        i = 0
        while i < len(stmts):
            s = stmts[i]
            for fld in ("body", "orelse", "finalbody"):
                sub = getattr(s, fld, None)
                if isinstance(sub, list) and sub and isinstance(
                        sub[0], ast.stmt) and not isinstance(
                            s, (ast.FunctionDef, ast.AsyncFunctionDef,
                                ast.ClassDef)):
                    setattr(s, fld, block(sub))
            if isinstance(s, ast.Try):
                for h in s.handlers:
                    h.body = block(h.body)
            if isinstance(s, ast.Assign) and len(s.targets) == 1 and \
                    isinstance(s.targets[0], ast.Name) and i + 1 < len(stmts):
                t = s.targets[0].id
                nxt = stmts[i + 1]
                b_expr = None
                used = 0
                consumed = 0
                if isinstance(nxt, ast.If) and isinstance(
                        nxt.test, ast.Name) and nxt.test.id == t and len(
                            nxt.body) == 1 and isinstance(
                                nxt.body[0], ast.Return) and isinstance(
                                    nxt.body[0].value, ast.Name) and \
                        nxt.body[0].value.id == t:
                    if len(nxt.orelse) == 1 and isinstance(
                            nxt.orelse[0], ast.Return) and \
                            nxt.orelse[0].value is not None:
                        b_expr, used, consumed = nxt.orelse[0].value, 2, 2
                    elif not nxt.orelse and i + 2 < len(stmts) and \
                            isinstance(stmts[i + 2], ast.Return) and \
                            stmts[i + 2].value is not None:
                        b_expr, used, consumed = stmts[i + 2].value, 2, 3
                elif isinstance(nxt, ast.Return) and isinstance(
                        nxt.value, ast.IfExp) and isinstance(
                            nxt.value.test, ast.Name) and \
                        nxt.value.test.id == t and isinstance(
                            nxt.value.body, ast.Name) and \
                        nxt.value.body.id == t:
                    b_expr, used, consumed = nxt.value.orelse, 2, 2
                if b_expr is not None and loads(t) == used and not any(
                        isinstance(n, ast.Name) and n.id == t
                        for n in ast.walk(b_expr)):
                    r = ast.copy_location(ast.Return(ast.BoolOp(
                        ast.Or(), [s.value, b_expr])), s)
                    ast.fix_missing_locations(r)
                    out.append(r)
                    cnt[0] += 1
                    i += consumed
                    continue
            out.append(s)
            i += 1
        return out
    fn.body = block(fn.body)
    return cnt[0]


def fold_class_constants(fn, cls, kinds=(bytes,)):
    """`cls.X` / `self.X` bound in the class body to a literal of one of
    `kinds`, never stored to by any method of the class family, is written
    as the literal.  Returns the number of substitutions."""
    if cls is None or not hasattr(cls, "lookup"):
        return 0
    cnt = [0]
    fam = [k for k in getattr(cls, "mro", []) if hasattr(k, "methods")]
    try:
        fam += list(cls.subclasses())
    except Exception:
        pass
    stored = set()
    for k in fam:
        for (kind, m) in getattr(k, "methods", {}).values():
            for n in ast.walk(m):
                if isinstance(n, ast.Attribute) and isinstance(
                        n.ctx, (ast.Store, ast.Del)) and isinstance(
                            n.value, ast.Name) and n.value.id in ("self",
                                                                  "cls"):
                    stored.add(n.attr)

    def const_of(name):
        if name in stored:
            return None
        vals = []
        for k in fam:
            e = getattr(k, "attrs", {}).get(name)
            if e is not None:
                vals.append(e)
        if len(vals) != 1:
            return None        # overridden somewhere: not one constant
        e = vals[0]
        if isinstance(e, ast.Constant) and type(e.value) in kinds:
            return e
        if bytes in kinds and isinstance(e, ast.Call) and isinstance(
                e.func, ast.Name) and e.func.id == "bytes" and len(
                    e.args) == 1 and isinstance(
                        e.args[0], (ast.List, ast.Tuple)) and all(
                            isinstance(x, ast.Constant) and type(
                                x.value) is int and 0 <= x.value < 256
                            for x in e.args[0].elts):
            return ast.Constant(bytes(x.value for x in e.args[0].elts))
        return None

    class X(ast.NodeTransformer):
        def visit_Attribute(self, n):
            if isinstance(n.ctx, ast.Load) and isinstance(
                    n.value, ast.Name) and n.value.id in ("self", "cls"):
                v = const_of(n.attr)
                if v is not None:
                    cnt[0] += 1
                    return ast.copy_location(acopy(v), n)
            return self.generic_visit(n)
    X().visit(fn)
    return cnt[0]


# ---------------------------------------------------------------------------
def expand_quantifiers(fn):
    """Quantifier spellings of a search loop written as the loop:

        S = [E(x) for x in ITER]                (S only read by the forms below)
        if any(P(t) for t in S): <raise/return>  ->  for x in ITER:
                                                         t = E(x)
                                                         if P(t): <raise/return>
        if not all(P(t) for t in S): ...          (the same with `not P`)
        flag = A or (C in S)                      ->  flag = A
        flag = A or any(P(t) for t in S)              for x in ITER:
                                                         t = E(x)
                                                         if t == C: flag = True
    (also directly over ITER, without the intermediate list).  The tests are
    assumed free of side effects, as in the loop they abbreviate.  Returns
    the number of rewrites (fn modified in place)."""
    defs = _single_defs(fn)
    cnt = [0]

    def source(it):
        """(loop target ast, iterable ast, [binding stmts for t]) for
        iterating `it` with element name t given later."""
        if isinstance(it, ast.Name) and it.id in defs and isinstance(
                defs[it.id], (ast.ListComp, ast.GeneratorExp)) and len(
                    defs[it.id].generators) == 1 and not defs[it.id] \
                .generators[0].ifs and not _mutated(fn, it.id):
            c = defs[it.id]
            g = c.generators[0]
            return g.target, g.iter, c.elt
        return None, it, None

    def loop_for(gen_target, gen_iter, cond, body):
        tgt, it, elt = source(gen_iter)
        stmts = []
        if elt is not None:
            # for x in ITER: t = E(x)
            stmts.append(ast.Assign([acopy(gen_target)], acopy(elt)))
            loop_t = acopy(tgt)
        else:
            loop_t = acopy(gen_target)
        for n in ast.walk(loop_t):
            if isinstance(n, ast.Name):
                n.ctx = ast.Store()
        stmts.append(ast.If(cond, body, []))
        return ast.For(loop_t, acopy(it), stmts, [])

    def anyall(e):
        """(generator, predicate with polarity applied) for any(..) /
        not all(..); None otherwise."""
        neg = False
        if isinstance(e, ast.UnaryOp) and isinstance(e.op, ast.Not):
            e, neg = e.operand, True
        if isinstance(e, ast.Call) and isinstance(e.func, ast.Name) and \
                e.func.id in ("any", "all") and len(e.args) == 1 and \
                isinstance(e.args[0], (ast.GeneratorExp, ast.ListComp)) and \
                len(e.args[0].generators) == 1 and \
                not e.args[0].generators[0].ifs:
            is_any = e.func.id == "any"
            if is_any == neg:
                return None      # `not any` / `all`: a for-all, not a search
            g = e.args[0].generators[0]
            p = e.args[0].elt
            if not is_any:
                p = ast.UnaryOp(ast.Not(), p)
            return g, p
        return None

    def terminates(body):
        return bool(body) and isinstance(body[-1], (ast.Raise, ast.Return))

    def block(stmts):
        out = []
        for s in stmts:
            for fld in ("body", "orelse", "finalbody"):
                sub = getattr(s, fld, None)
                if isinstance(sub, list) and sub and isinstance(
                        sub[0], ast.stmt) and not isinstance(
                            s, (ast.FunctionDef, ast.AsyncFunctionDef,
                                ast.ClassDef)):
                    setattr(s, fld, block(sub))
            if isinstance(s, ast.If) and not s.orelse and terminates(s.body):
                q = anyall(s.test)
                if q is not None:
                    g, p = q
                    loop = loop_for(g.target, g.iter, p, s.body)
                    ast.copy_location(loop, s)
                    ast.fix_missing_locations(loop)
                    out.append(loop)
                    cnt[0] += 1
                    continue
            if isinstance(s, ast.Assign) and len(s.targets) == 1 and \
                    isinstance(s.targets[0], ast.Name) and isinstance(
                        s.value, ast.BoolOp) and isinstance(
                            s.value.op, ast.Or) and len(s.value.values) == 2:
                a, b = s.value.values
                flag = s.targets[0].id
                q = anyall(b)
                loop = None
                setf = [ast.Assign([ast.Name(flag, ast.Store())],
                                   ast.Constant(True))]
                if q is not None:
                    g, p = q
                    loop = loop_for(g.target, g.iter, p, setf)
                elif isinstance(b, ast.Compare) and len(b.ops) == 1 and \
                        isinstance(b.ops[0], ast.In) and _is_atomic(b.left):
                    t = ast.Name("__elt", ast.Store())
                    loop = loop_for(t, b.comparators[0], ast.Compare(
                        ast.Name("__elt", ast.Load()), [ast.Eq()],
                        [acopy(b.left)]), setf)
                    if source(b.comparators[0])[2] is None and not isinstance(
                            b.comparators[0], ast.Name):
                        loop = None
                if loop is not None:
                    first = ast.Assign([ast.Name(flag, ast.Store())], a)
                    for x in (first, loop):
                        ast.copy_location(x, s)
                        ast.fix_missing_locations(x)
                    out += [first, loop]
                    cnt[0] += 1
                    continue
            out.append(s)
        return out
    fn.body = block(fn.body)
    if cnt[0]:
        # comprehension lists that are no longer read
        used = {n.id for n in ast.walk(fn) if isinstance(n, ast.Name) and
                isinstance(n.ctx, ast.Load)}

        def prune(stmts):
            res = []
            for s in stmts:
                for fld in ("body", "orelse", "finalbody"):
                    sub = getattr(s, fld, None)
                    if isinstance(sub, list) and sub and isinstance(
                            sub[0], ast.stmt):
                        setattr(s, fld, prune(sub) or [ast.Pass()])
                if isinstance(s, ast.Assign) and len(s.targets) == 1 and \
                        isinstance(s.targets[0], ast.Name) and \
                        s.targets[0].id not in used and isinstance(
                            s.value, (ast.ListComp, ast.GeneratorExp)):
                    continue
                res.append(s)
            return res
        fn.body = prune(fn.body)
        ast.fix_missing_locations(fn)
    return cnt[0]


def fold_int_class_attrs(fn, folder, c):
    """Copy of fn with loads of `self.X` / `cls.X` written as the integer
    the class attribute folds to (named constants for header sizes, masks);
    attributes some method of the class family stores to are left alone."""
    fam = [k for k in getattr(c, "mro", []) if hasattr(k, "methods")]
    try:
        fam += list(c.subclasses())
    except Exception:
        pass
    stored = set()
    for k in fam:
        for (kind, m) in getattr(k, "methods", {}).values():
            for n in ast.walk(m):
                if isinstance(n, ast.Attribute) and isinstance(
                        n.ctx, (ast.Store, ast.Del)) and isinstance(
                            n.value, ast.Name) and n.value.id in ("self",
                                                                  "cls"):
                    stored.add(n.attr)

    class F(ast.NodeTransformer):
        def visit_Attribute(self, n):
            self.generic_visit(n)
            if isinstance(n.ctx, ast.Load) and isinstance(
                    n.value, ast.Name) and n.value.id in ("self", "cls") \
                    and n.attr not in stored:
                try:
                    v = folder.class_attr(c, n.attr)
                except Exception:
                    v = None
                if type(v) is int:
                    return ast.copy_location(ast.Constant(v), n)
            return n
    out = F().visit(acopy(fn))
    ast.fix_missing_locations(out)
    return out
