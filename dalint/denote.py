"""Denotation of small pure expressions over a raw byte string: a canonical
algebraic form that is the same for every spelling of the same formula.

  numbers   polynomials with rational coefficients over atoms
              be[lo:hi;signed]      big-endian integer of raw[lo:hi]
              le[lo:hi;signed]      little-endian
              cls.X                 a class constant, symbolic
              fdiv(<p>,c) mod(<p>,c)   floor division / remainder by a constant
                                    (`>> k`, `// c`, `& (2**k - 1)`, `% c`)
              pow10(<p>) pow10d(<p>)   10 ** p with an int / Decimal base
  strings   ("fmt", parts)          f-string, %-format, str.format, str() +
            ("join", sep, "raw")    sep.join(str(b) for b in raw)
            ("cstring", codec)      raw up to the first NUL, decoded
            ("lit", s)
  booleans, flags (FlagValue.X), None

`n >> 2` and `n // 4`, `f"{a}.{b}"` and `"%d.%d" % (a, b)`, a hoisted local
and the inlined expression all denote the same thing; `int.from_bytes(raw,
'little')` or a dropped `signed=` do not.  Anything else is ("opaque", text):
never equal to an expected form.  Nothing is executed."""
import ast
from fractions import Fraction

from .core import unparse


class Poly:
    __slots__ = ("m",)

    def __init__(self, m=None):
        self.m = {k: Fraction(v) for k, v in (m or {}).items() if v}

    @staticmethod
    def const(c):
        return Poly({(): c})

    @staticmethod
    def atom(a):
        return Poly({(a,): 1})

    def __add__(self, o):
        m = dict(self.m)
        for k, v in o.m.items():
            m[k] = m.get(k, 0) + v
        return Poly(m)

    def __neg__(self):
        return Poly({k: -v for k, v in self.m.items()})

    def __sub__(self, o):
        return self + (-o)

    def __mul__(self, o):
        m = {}
        for k1, v1 in self.m.items():
            for k2, v2 in o.m.items():
                k = tuple(sorted(k1 + k2))
                m[k] = m.get(k, 0) + v1 * v2
        return Poly(m)

    def is_const(self):
        return all(k == () for k in self.m)

    def const_value(self):
        return self.m.get((), Fraction(0))

    def key(self):
        return tuple(sorted((k, str(v)) for k, v in self.m.items()))

    def __eq__(self, o):
        return isinstance(o, Poly) and self.key() == o.key()

    def __hash__(self):
        return hash(self.key())

    def __repr__(self):
        if not self.m:
            return "0"
        out = []
        for k, v in sorted(self.m.items()):
            t = "*".join(k)
            if not k:
                out.append(str(v))
            elif v == 1:
                out.append(t)
            else:
                out.append("%s*%s" % (v, t))
        return " + ".join(out)

    def linear_atoms(self):
        """{atom: coeff}, const if every monomial has degree <= 1 and the
        coefficients are integers; else None."""
        c, k = {}, 0
        for mono, v in self.m.items():
            if v.denominator != 1 or len(mono) > 1:
                return None
            if mono:
                c[mono[0]] = int(v)
            else:
                k = int(v)
        return c, k


def num(p):
    return ("num", p)


def show(d):
    if d is None:
        return "?"
    if d[0] == "num":
        return repr(d[1])
    if d[0] == "str":
        return "str:" + repr(d[1])
    return "%s:%s" % (d[0], d[1] if len(d) > 1 else "")


class Denoter:
    def __init__(self, raw="raw", super_call=None, names=None,
                 strsyms=False):
        self.strsyms = strsyms      # unknown values in f-strings: symbols
        self.raw = raw
        self.super_call = super_call    # (method name, [arg asts]) -> den
        self.names = names or {}

    # -- byte ranges ---------------------------------------------------------
    def _range(self, e):
        """(lo, hi) of a slice of raw; hi 'n' = to the end."""
        if isinstance(e, ast.Name) and e.id == self.raw:
            return ("0", "n")
        if isinstance(e, ast.Subscript) and isinstance(
                e.value, ast.Name) and e.value.id == self.raw and isinstance(
                    e.slice, ast.Slice) and e.slice.step is None:
            lo = self._idx(e.slice.lower, "0")
            hi = self._idx(e.slice.upper, "n")
            if lo is not None and hi is not None:
                return (lo, hi)
        return None

    def _idx(self, e, default):
        if e is None:
            return default
        d = self.den(e)
        if d[0] == "num" and d[1].is_const() and \
                d[1].const_value().denominator == 1:
            v = int(d[1].const_value())
            return str(v) if v >= 0 else "n%d" % v
        return None

    # -- main ----------------------------------------------------------------
    def den(self, e):
        try:
            r = self._den(e)
        except RecursionError:
            r = None
        return r if r is not None else ("opaque", unparse(e, 120))

    def _den(self, e):
        if isinstance(e, ast.Constant):
            v = e.value
            if v is None:
                return ("none",)
            if isinstance(v, bool):
                return ("bool", v)
            if isinstance(v, int):
                return num(Poly.const(v))
            if isinstance(v, str):
                return ("str", ("lit", v))
            if isinstance(v, bytes):
                return ("bytes", v)
            return None
        if isinstance(e, ast.Name):
            if e.id in self.names:
                return self.names[e.id]
            if e.id == self.raw:
                return ("rawslice", "0", "n")
            return None
        if isinstance(e, ast.Attribute):
            t = unparse(e)
            if t.startswith("FlagValue."):
                return ("flag", e.attr)
            if isinstance(e.value, ast.Name) and e.value.id in ("cls",
                                                                "self"):
                return num(Poly.atom("cls." + e.attr))
            return None
        if isinstance(e, ast.Subscript) and isinstance(
                e.value, ast.Call) and unparse(e.value.func) == "divmod" \
                and len(e.value.args) == 2 and isinstance(
                    e.slice, ast.Constant) and e.slice.value in (0, 1):
            a, b = e.value.args
            return self._den(ast.BinOp(a, ast.FloorDiv() if e.slice.value
                                       == 0 else ast.Mod(), b))
        if isinstance(e, ast.Subscript):
            r = self._range(e)
            if r is not None:
                return ("rawslice",) + r
            if isinstance(e.value, ast.Name) and e.value.id == self.raw:
                i = self._idx(e.slice, None)
                if i is not None:
                    if i.startswith("n"):
                        k = int(i[1:])
                        hi = "n" if k == -1 else "n%d" % (k + 1)
                        return num(Poly.atom("be[%s:%s;False]" % (i, hi)))
                    return num(Poly.atom("be[%s:%d;False]" % (
                        i, int(i) + 1)))
            return None
        if isinstance(e, ast.UnaryOp):
            d = self.den(e.operand)
            if isinstance(e.op, ast.USub) and d[0] == "num":
                return num(-d[1])
            if isinstance(e.op, ast.UAdd) and d[0] == "num":
                return d
            if isinstance(e.op, ast.Not) and d[0] == "bool":
                return ("bool", not d[1])
            return None
        if isinstance(e, ast.BinOp):
            return self._binop(e)
        if isinstance(e, ast.JoinedStr):
            parts = []
            for v in e.values:
                if isinstance(v, ast.Constant):
                    parts.append(("lit", v.value))
                elif isinstance(v, ast.FormattedValue) and \
                        v.format_spec is not None and _hexspec(
                            v.format_spec) is not None:
                    case, width = _hexspec(v.format_spec)
                    parts.append(("hexint", case, width,
                                  unparse(v.value, 200)))
                elif isinstance(v, ast.FormattedValue):
                    if v.conversion not in (-1, 115) or (
                            v.format_spec is not None and unparse(
                                v.format_spec) not in ("f'd'", "f''")):
                        return None
                    d = self.den(v.value)
                    if d[0] == "opaque" and self.strsyms and \
                            v.format_spec is None:
                        d = ("strsym", unparse(v.value, 200))
                    parts.append(d)
            return _fmt(parts)
        if isinstance(e, ast.Call):
            return self._call(e)
        if isinstance(e, ast.IfExp):
            return None
        return None

    def _binop(self, e):
        a, b = self.den(e.left), self.den(e.right)
        op = e.op
        if a[0] == "str" and isinstance(op, ast.Add) and b[0] == "str":
            return _fmt(_parts(a) + _parts(b))
        if a[0] == "str" and isinstance(op, ast.Mod):
            return self._percent(a, e.right)
        if a[0] != "num" or b[0] != "num":
            return None
        p, q = a[1], b[1]
        if isinstance(op, ast.Add):
            return num(p + q)
        if isinstance(op, ast.Sub):
            return num(p - q)
        if isinstance(op, ast.Mult):
            return num(p * q)
        if isinstance(op, ast.Pow):
            if p.is_const() and p.const_value() == 10:
                return num(Poly.atom("pow10(%r)" % q))
            if p == Poly.atom("dec10"):
                return num(Poly.atom("pow10d(%r)" % q))
            if q.is_const() and q.const_value().denominator == 1 and \
                    0 <= q.const_value() <= 8:
                r = Poly.const(1)
                for _ in range(int(q.const_value())):
                    r = r * p
                return num(r)
            return None
        if not (q.is_const() and q.const_value().denominator == 1):
            return None
        c = int(q.const_value())
        if isinstance(op, ast.RShift) and 0 <= c < 64:
            return _fdiv(p, 2 ** c)
        if isinstance(op, ast.LShift) and 0 <= c < 64:
            return num(p * Poly.const(2 ** c))
        if isinstance(op, ast.FloorDiv) and c > 0:
            return _fdiv(p, c)
        if isinstance(op, ast.Mod) and c > 0:
            return _mod(p, c)
        if isinstance(op, ast.BitAnd) and c >= 0 and (c & (c + 1)) == 0:
            return _mod(p, c + 1)
        return None

    def _percent(self, a, right):
        if a[1][0] != "lit":
            return None
        args = right.elts if isinstance(right, ast.Tuple) else [right]
        return self._template(a[1][1], "%", args)

    def _template(self, s, style, args):
        import re
        parts = []
        pat = r"%[ds]" if style == "%" else r"\{\}|\{:d\}"
        pos = 0
        i = 0
        for m in re.finditer(pat, s):
            if m.start() > pos:
                parts.append(("lit", s[pos:m.start()]))
            if i >= len(args):
                return None
            parts.append(self.den(args[i]))
            i += 1
            pos = m.end()
        if pos < len(s):
            parts.append(("lit", s[pos:]))
        if i != len(args) or ("%" in "".join(
                p[1] for p in parts if p[0] == "lit") and style == "%"):
            return None
        return _fmt(parts)

    def _kw(self, call, name, pos, default):
        for k in call.keywords:
            if k.arg == name:
                return k.value
        if len(call.args) > pos:
            return call.args[pos]
        return default

    def _call(self, e):
        f = unparse(e.func)
        if f == "int.from_bytes" and e.args:
            src = self.den(e.args[0])
            if src[0] != "rawslice":
                return None
            order = self._kw(e, "byteorder", 1, ast.Constant("big"))
            if not (isinstance(order, ast.Constant) and order.value in (
                    "big", "little")):
                return None
            sg = self._kw(e, "signed", 2, ast.Constant(False))
            if isinstance(sg, ast.Constant) and isinstance(sg.value, bool):
                sgt = str(sg.value)
            else:
                sgt = unparse(sg)
            if src[1] != "n" and src[2] != "n" and src[1].isdigit() and \
                    src[2].isdigit() and int(src[2]) - int(src[1]) == 1 \
                    and False:
                pass
            return num(Poly.atom("%s[%s:%s;%s]" % (
                "be" if order.value == "big" else "le", src[1], src[2],
                sgt)))
        if f == "Decimal" and len(e.args) == 1 and not e.keywords:
            d = self.den(e.args[0])
            if d[0] == "num" and d[1].is_const() and \
                    d[1].const_value() == 10:
                return num(Poly.atom("dec10"))
            if d[0] == "num":
                return num(Poly.atom("dec(%r)" % d[1]))
            return None
        if f == "pow" and len(e.args) == 2 and not e.keywords:
            return self._den(ast.BinOp(e.args[0], ast.Pow(), e.args[1]))
        if f in ("int", "bool") and len(e.args) == 1 and not e.keywords:
            d = self.den(e.args[0])
            if f == "int" and d[0] == "num":
                return d
            return None
        if f == "str" and len(e.args) == 1 and not e.keywords:
            d = self.den(e.args[0])
            if d[0] == "num":
                return _fmt([d])
            if d[0] == "str":
                return d
            return None
        if f == "len" and len(e.args) == 1 and isinstance(
                e.args[0], ast.Name) and e.args[0].id == self.raw:
            return num(Poly.atom("n"))
        if isinstance(e.func, ast.Attribute):
            recv, meth = e.func.value, e.func.attr
            if meth == "format" and not e.keywords:
                r = self.den(recv)
                if r[0] == "str" and r[1][0] == "lit":
                    return self._template(r[1][1], "{", list(e.args))
                return None
            if meth == "hex" and not e.args and not e.keywords:
                return ("str", ("hex", "lower", unparse(recv, 200)))
            if meth in ("upper", "lower") and not e.args:
                r = self.den(recv)
                if r[0] == "str" and r[1][0] == "hex":
                    return ("str", ("hex", meth, r[1][2]))
                return None
            if meth == "encode" and len(e.args) <= 1 and not e.keywords:
                r = self.den(recv)
                codec = e.args[0].value if e.args and isinstance(
                    e.args[0], ast.Constant) else "utf-8"
                if r[0] == "str":
                    return ("bytes-of", str(codec).lower().replace("_", "-"),
                            r[1])
                return None
            if meth == "join" and len(e.args) == 1 and not e.keywords:
                r = self.den(recv)
                if r[0] == "str" and r[1] == ("lit", ""):
                    h = _hex_of_bytes(e.args[0])
                    if h is not None:
                        return ("str", ("hex",) + h)
            if meth == "join" and len(e.args) == 1 and not e.keywords:
                r = self.den(recv)
                if r[0] == "str" and r[1][0] == "lit" and _str_of_raw_bytes(
                        e.args[0], self.raw):
                    return ("str", ("join", r[1][1], "raw"))
                return None
            if meth == "decode" and len(e.args) <= 1:
                codec = e.args[0].value if e.args and isinstance(
                    e.args[0], ast.Constant) else "utf-8"
                for k in e.keywords:
                    return None
                if _before_nul(recv, self.raw):
                    return ("str", ("cstring", str(codec).lower().replace(
                        "_", "-")))
                return None
            if unparse(recv) == "super()" and self.super_call is not None:
                return self.super_call(meth, list(e.args))
        return None


def _parts(d):
    if d[0] == "str" and d[1][0] == "fmt":
        return list(d[1][1])
    if d[0] == "str" and d[1][0] == "lit":
        return [("lit", d[1][1])]
    if d[0] == "str" and d[1][0] in ("strsym", "hex"):
        return [d[1]]
    return [d]


def _fmt(parts):
    out = []
    for p in parts:
        if p[0] == "str":
            for q in _parts(p):
                out.append(q)
        else:
            out.append(p)
    merged = []
    for p in out:
        if p[0] == "lit" and merged and merged[-1][0] == "lit":
            merged[-1] = ("lit", merged[-1][1] + p[1])
        elif p[0] == "lit" and p[1] == "":
            continue
        else:
            merged.append(p)
    if any(p[0] not in ("lit", "num", "strsym", "hex", "hexint")
           for p in merged):
        return None
    if len(merged) == 1 and merged[0][0] == "lit":
        return ("str", ("lit", merged[0][1]))
    if len(merged) == 1 and merged[0][0] in ("strsym", "hex"):
        return ("str", merged[0])
    if not merged:
        return ("str", ("lit", ""))
    return ("str", ("fmt", tuple(merged)))


def _fdiv(p, c):
    if c == 1:
        return num(p)
    if p.is_const() and p.const_value().denominator == 1:
        return num(Poly.const(int(p.const_value()) // c))
    return num(Poly.atom("fdiv(%r,%d)" % (p, c)))


def _mod(p, c):
    if p.is_const() and p.const_value().denominator == 1:
        return num(Poly.const(int(p.const_value()) % c))
    return num(Poly.atom("mod(%r,%d)" % (p, c)))


def _str_of_raw_bytes(e, raw):
    """`str(x) for x in raw`, `[str(x) for x in raw]`, `map(str, raw)`."""
    if isinstance(e, (ast.GeneratorExp, ast.ListComp)) and len(
            e.generators) == 1:
        g = e.generators[0]
        if g.ifs or g.is_async or not isinstance(g.target, ast.Name):
            return False
        if not (isinstance(g.iter, ast.Name) and g.iter.id == raw):
            return False
        x = g.target.id
        return unparse(e.elt) in ("str(%s)" % x, "f'{%s}'" % x,
                                  "'%%d' %% %s" % x, "f'{%s:d}'" % x)
    if isinstance(e, ast.Call) and unparse(e.func) == "map" and len(
            e.args) == 2:
        return unparse(e.args[0]) == "str" and unparse(e.args[1]) == raw
    return False


def _before_nul(e, raw):
    """raw.split(b'\\0')[0] / raw.split(b'\\0', 1)[0] /
    raw.partition(b'\\0')[0]"""
    if not (isinstance(e, ast.Subscript) and unparse(e.slice) == "0"):
        return False
    c = e.value
    if not (isinstance(c, ast.Call) and isinstance(c.func, ast.Attribute)
            and isinstance(c.func.value, ast.Name) and
            c.func.value.id == raw and not c.keywords and c.args):
        return False
    sep = c.args[0]
    if not (isinstance(sep, ast.Constant) and sep.value == b"\x00"):
        return False
    if c.func.attr == "partition":
        return len(c.args) == 1
    if c.func.attr == "split":
        return len(c.args) == 1 or (len(c.args) == 2 and isinstance(
            c.args[1], ast.Constant) and isinstance(c.args[1].value, int)
            and c.args[1].value >= 1)
    return False


def _hex_of_bytes(e):
    """("upper"|"lower", source text) for a comprehension that formats each
    byte of a bytes value as two hex digits."""
    if not (isinstance(e, (ast.GeneratorExp, ast.ListComp)) and len(
            e.generators) == 1):
        return None
    g = e.generators[0]
    if g.ifs or g.is_async or not isinstance(g.target, ast.Name):
        return None
    x = g.target.id
    t = unparse(e.elt)
    forms = {"'{:02X}'.format(%s)" % x: "upper",
             "'{:02x}'.format(%s)" % x: "lower",
             "'%%02X' %% %s" % x: "upper", "'%%02x' %% %s" % x: "lower",
             "f'{%s:02X}'" % x: "upper", "f'{%s:02x}'" % x: "lower",
             "format(%s, '02X')" % x: "upper",
             "format(%s, '02x')" % x: "lower"}
    if t in forms:
        return (forms[t], unparse(g.iter, 200))
    return None


def _hexspec(spec):
    """('upper'|'lower', width) for a format spec like 04X."""
    import re
    if isinstance(spec, ast.JoinedStr) and len(spec.values) == 1 and \
            isinstance(spec.values[0], ast.Constant):
        m = re.fullmatch(r"0?(\d*)([Xx])", str(spec.values[0].value))
        if m:
            return ("upper" if m.group(2) == "X" else "lower",
                    int(m.group(1) or 0))
    return None
