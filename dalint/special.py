"""Specialisation of a method for one value of a state attribute: the
residual body of `_process_byte` when `self._rx_state` is a given ReadState
member on entry.

The body is walked once with an environment of known constants (ints,
strings, enum members, lists / tuples of those): tests the constant folder
decides select their branch, locals bound to constants are substituted where
they are read (`self._buffer[position] = b` with position = 2 becomes
`self._buffer[2] = b`, `fill_order[position + 1]` becomes the enum member
written as `self.ReadState.NAME`), and an assignment to the state attribute
updates what later tests of it see.  An if / elif chain, a `match`, a lookup
in a table or arithmetic on the enum's order therefore specialise to the same
residual statements.  What cannot be decided stays as written (both branches
specialised with the assigned names forgotten).  Nothing is executed: the
folder evaluates expressions of the source on constants."""
import ast

from .core import unparse
from .fold import ClassRef, EnumMember, UNKNOWN
from .inline import acopy

STATE = "__state"


def _plain_const(v):
    return type(v) in (int, str, bool) or v is None


def _to_ast(v, state_cls_expr):
    if _plain_const(v):
        return ast.Constant(v)
    if isinstance(v, EnumMember) and v.name is not None:
        return ast.Attribute(acopy(state_cls_expr), v.name, ast.Load())
    if isinstance(v, range):
        # a folded range kept only in the environment: written out where a
        # residual statement still reads it (`x in valid_lengths`)
        args = [v.start, v.stop] + ([v.step] if v.step != 1 else [])
        return ast.Call(ast.Name("range", ast.Load()),
                        [ast.Constant(a) for a in args], [])
    if isinstance(v, (tuple, list, frozenset, set)) and all(
            _plain_const(x) for x in v):
        elts = [ast.Constant(x) for x in (
            sorted(v, key=repr) if isinstance(v, (set, frozenset)) else v)]
        if isinstance(v, list):
            return ast.List(elts, ast.Load())
        if isinstance(v, (set, frozenset)) and elts:
            return ast.Set(elts)
        if isinstance(v, tuple):
            return ast.Tuple(elts, ast.Load())
    return None


class Specialiser:
    def __init__(self, folder, owner, state_attrs, state_cls_expr):
        self.folder, self.owner = folder, owner
        self.state_attrs = set(state_attrs)     # {"self._rx_state", ...}
        self.state_cls_expr = state_cls_expr    # ast of self.ReadState
        self.decided = 0

    # -- expressions -----------------------------------------------------------
    def _prep(self, e):
        """State attribute loads -> the pseudo name."""
        outer = self

        class R(ast.NodeTransformer):
            def visit_Attribute(self, n):
                if isinstance(n.ctx, ast.Load) and unparse(
                        n) in outer.state_attrs:
                    return ast.copy_location(ast.Name(STATE, ast.Load()), n)
                return self.generic_visit(n)
        return R().visit(acopy(e))

    def ev(self, e, env):
        if STATE not in env and any(
                isinstance(n, ast.Attribute) and unparse(n) in
                self.state_attrs for n in ast.walk(e)):
            return UNKNOWN
        full = {"self": ClassRef(self.owner), "cls": ClassRef(self.owner)}
        full.update(env)
        try:
            return self.folder.eval(self._prep(e), full, self.owner.mod,
                                    self.owner)
        except Exception:
            return UNKNOWN

    def subst(self, e, env):
        """Names bound to constants are written as the constant."""
        outer = self

        class S(ast.NodeTransformer):
            def visit_Name(self, n):
                if isinstance(n.ctx, ast.Load) and n.id in env:
                    a = _to_ast(env[n.id], outer.state_cls_expr)
                    if a is not None:
                        return ast.copy_location(a, n)
                return n

            def visit_Subscript(self, n):
                self.generic_visit(n)
                if isinstance(n.ctx, ast.Load):
                    v = outer.ev(n, env)
                    a = _to_ast(v, outer.state_cls_expr) if v is not UNKNOWN \
                        else None
                    if a is not None:
                        return ast.copy_location(a, n)
                return n

            def visit_BinOp(self, n):
                self.generic_visit(n)
                v = outer.ev(n, env)
                if type(v) is int:
                    return ast.copy_location(ast.Constant(v), n)
                return n

            def visit_Lambda(self, n):
                return n
        return S().visit(acopy(e))

    # -- statements ------------------------------------------------------------
    def block(self, stmts, env):
        """(residual statements, env after, falls_through)"""
        out = []
        for s in stmts:
            r, env, cont = self.stmt(s, env)
            out += r
            if not cont:
                return out, env, False
        return out, env, True

    def _forget(self, env, stmts):
        env = dict(env)
        for s in stmts:
            for n in ast.walk(s):
                if isinstance(n, ast.Name) and isinstance(
                        n.ctx, (ast.Store, ast.Del)):
                    env.pop(n.id, None)
                if isinstance(n, ast.Attribute) and isinstance(
                        n.ctx, ast.Store) and unparse(n) in self.state_attrs:
                    env.pop(STATE, None)
        return env

    def stmt(self, s, env):
        if isinstance(s, ast.If):
            v = self.ev(s.test, env)
            if v is not UNKNOWN:
                self.decided += 1
                return self.block(s.body if v else s.orelse, env)
            b, eb, cb = self.block(s.body, env)
            o, eo, co = self.block(s.orelse, env)
            new = ast.copy_location(ast.If(self.subst(s.test, env),
                                           b or [ast.Pass()], o), s)
            env2 = self._forget(env, s.body + s.orelse)
            if cb and not co:
                env2 = eb
            elif co and not cb:
                env2 = eo
            return [new], env2, cb or co
        if isinstance(s, (ast.Return, ast.Raise, ast.Continue, ast.Break)):
            s2 = acopy(s)
            if isinstance(s, ast.Return) and s.value is not None:
                s2.value = self.subst(s.value, env)
            return [s2], env, False
        if isinstance(s, ast.Assign) and len(s.targets) == 1:
            t = s.targets[0]
            v = self.ev(s.value, env)
            s2 = acopy(s)
            s2.value = self.subst(s.value, env)
            if isinstance(t, ast.Name):
                env = dict(env)
                if v is not UNKNOWN:
                    env[t.id] = v
                    if not _plain_const(v) and not isinstance(v, EnumMember):
                        # a folded table: keep it in the environment only
                        return [], env, True
                else:
                    env.pop(t.id, None)
                return [s2], env, True
            if isinstance(t, ast.Attribute) and unparse(t) in \
                    self.state_attrs:
                env = dict(env)
                if isinstance(v, EnumMember):
                    env[STATE] = v
                else:
                    env.pop(STATE, None)
                return [s2], env, True
            s2.targets = [self.subst_target(t, env)]
            return [s2], env, True
        if isinstance(s, ast.AugAssign):
            s2 = acopy(s)
            s2.value = self.subst(s.value, env)
            env = self._forget(env, [s])
            return [s2], env, True
        if isinstance(s, ast.Expr):
            s2 = acopy(s)
            s2.value = self.subst(s.value, env)
            return [s2], env, True
        if isinstance(s, ast.Try):
            envb = self._forget(env, s.body)
            b, _, cb = self.block(s.body, env)
            s2 = acopy(s)
            s2.body = b or [ast.Pass()]
            conts = [cb]
            for h, h2 in zip(s.handlers, s2.handlers):
                hb, _, ch = self.block(h.body, envb)
                h2.body = hb or [ast.Pass()]
                conts.append(ch)
            if s.orelse:
                ob, _, co = self.block(s.orelse, envb)
                s2.orelse = ob
                conts[0] = cb and co
            cont = any(conts)
            if s.finalbody:
                fb, _, cf = self.block(s.finalbody, envb)
                s2.finalbody = fb
                cont = cont and cf
            return [s2], self._forget(envb, [s]), cont
        if isinstance(s, (ast.For, ast.While, ast.With, ast.AsyncWith,
                          ast.AsyncFor)):
            env2 = self._forget(env, [s])
            s2 = acopy(s)
            b, _, _ = self.block(s.body, env2)
            s2.body = b or [ast.Pass()]
            return [s2], env2, True
        return [acopy(s)], self._forget(env, [s]), True

    def subst_target(self, t, env):
        if isinstance(t, ast.Subscript):
            t2 = acopy(t)
            t2.slice = self.subst(t.slice, env)
            return t2
        return acopy(t)


def specialise(fn, folder, owner, state_attrs, state_cls_expr, member):
    """Residual body of fn for state attribute == member on entry; also the
    number of tests decided by the state (0 = the function does not dispatch
    on it)."""
    sp = Specialiser(folder, owner, state_attrs, state_cls_expr)
    body = [s for s in fn.body if not (isinstance(s, ast.Expr) and isinstance(
        s.value, ast.Constant) and isinstance(s.value.value, str))]
    out, env, cont = sp.block(body, {STATE: member})
    for x in out:
        ast.fix_missing_locations(x)
    return out, sp.decided, cont
