"""Shared helpers for the memory-access generators (C09, C10): the gear/device
selector functions, labelled yields, and the write-enable typestate."""
import ast

from .core import AnalysisError, unparse, where
from .cfg import _walk_no_nested
from .seq import gen_cfg, yields_of
from .normal import normalise

LOC = "dali.memory.location"

# IEC 62386-102 9.10 / the EnableWriteMemory docstring: writeEnableState is
# cleared by every command except these
WEN_KEEP = {"DTR0", "DTR1", "DTR2", "WriteMemoryLocation",
            "WriteMemoryLocationNoReply", "QueryContentDTR0",
            "QueryContentDTR1", "QueryContentDTR2", "DTR1DTR0", "DTR2DTR1"}


def selectors(run, repo, world):
    """R-MEM-SIB: each _X(addr, ...) returns gear.general.X for GearAddress,
    device.general.X (same command name) for DeviceAddress, raises otherwise.
    Returns {helper function name: command name}."""
    mod = repo.mod(LOC)
    run.rule("R-MEM-SIB", "gear/device selector returns the command of the "
             "same name for each address family, raises otherwise")
    out = {}
    for name, b in world.ns[LOC].items():
        if b.kind != "func" or not name.startswith("_") or b.mod != LOC:
            continue
        fn = b.value
        rets = [n for n in ast.walk(fn) if isinstance(n, ast.Return)]
        if not rets or not all(isinstance(r.value, ast.Call) for r in rets):
            continue
        if not fn.args.args or fn.args.args[0].arg != "addr":
            continue
        # outcome per address family, on the path summaries of the
        # normalised selector (a helper choosing the command module, a
        # table of (class, module) pairs, an if chain or a match all give
        # the same paths)
        from . import paths as _paths
        nf = normalise(fn, world, LOC, None, aliases=False)
        try:
            ps = _paths.summaries(nf)
        except _paths.Unsupported as e:
            raise AnalysisError("R-MEM-SIB: selector %s is not loop-free "
                                "after normalisation: %s" % (name, e))
        branches = {}
        has_raise = False
        ok_shape = True
        for p_ in ps:
            fams = []
            for (t, b_) in p_.conds:
                if isinstance(t, ast.Call) and unparse(
                        t.func) == "isinstance" and len(
                            t.args) == 2 and unparse(t.args[0]) == "addr":
                    elts = t.args[1].elts if isinstance(
                        t.args[1], ast.Tuple) else [t.args[1]]
                    ks = [world.resolve_class(LOC, e_) for e_ in elts]
                    fams.append(([k.qname if k else None for k in ks], b_))
                else:
                    ok_shape = False
            pos = [f_ for (fs, b_) in fams if b_ for f_ in fs]
            if p_.kind == "raise":
                if not pos:
                    has_raise = True
                else:
                    ok_shape = False
                continue
            if p_.kind != "return" or not isinstance(p_.expr, ast.Call) \
                    or len(pos) != 1:
                ok_shape = False
                continue
            k2 = world.resolve_class(LOC, p_.expr.func)
            if pos[0] in branches and (branches[pos[0]][0] is not k2):
                ok_shape = False
            branches[pos[0]] = (k2, p_.expr)
        g = branches.get("dali.address.GearAddress")
        d = branches.get("dali.address.DeviceAddress")
        ok = ok_shape and g is not None and d is not None and has_raise \
            and g[0] is not None and d[0] is not None and \
            g[0].mod == "dali.gear.general" and \
            d[0].mod == "dali.device.general" and g[0].name == d[0].name \
            and [unparse(a) for a in g[1].args] == [
                unparse(a) for a in d[1].args]
        cname = g[0].name if g and g[0] is not None else name.lstrip("_")
        run.ob("R-MEM-SIB", "%s.%s" % (LOC, name), bool(ok),
               "selector %s does not map GearAddress -> gear.general.%s and "
               "DeviceAddress -> device.general.%s with the same arguments, "
               "raising otherwise (gear=%s device=%s raise=%s)" % (
                   name, cname, cname, g[0].qname if g and g[0] else None,
                   d[0].qname if d and d[0] else None, has_raise),
               where(mod, fn))
        if name.lstrip("_") != cname:
            run.ob("R-MEM-SIB", "%s.%s#name" % (LOC, name), False,
                   "selector %s returns command %s" % (name, cname),
                   where(mod, fn))
        out[name] = cname
    run.floor("gear/device selector functions", len(out), 7)
    return out


def label(y, sel):
    """Command name of a yield in the memory generators."""
    if y.fn is not None and not y.is_from and y.fn[1].name in sel:
        return sel[y.fn[1].name]
    if y.cls is not None:
        return y.cls.name
    if y.is_from:
        return "from:" + (unparse(y.call.func) if y.call else "?")
    return "?:" + y.name


def const_arg(y, i):
    a = y.arg(i)
    if isinstance(a, ast.Constant) and isinstance(a.value, int):
        return a.value
    return None


# functions of dali/memory/location.py the rules know by name: they are
# analysed as units; anything else reachable through self./cls./a bare name
# (a helper introduced by a refactoring) is inlined first
PRIMITIVES = (
    "MemoryRange", "_DTR0", "_DTR1", "_EnableWriteMemory",
    "_QueryContentDTR0", "_ReadMemoryLocation", "_WriteMemoryLocation",
    "_WriteMemoryLocationNoReply", "_add_memory_value", "address",
    "check_raw", "default", "factory_default_contents", "from_list",
    "has_latch", "has_lock", "is_addressable", "is_locked", "is_valid",
    "last_address", "latch", "raw_to_value", "read", "read_all", "read_raw",
    "reset", "type_", "unlatch", "value_to_raw", "write", "write_raw")


def role_names(fn):
    """Locals of a memory write sequence renamed after the role they play,
    so that the rules do not depend on what a local is called:
      for A, B in zip(cls.locations, <raw>)   A -> location, B -> value
      X compared with A.address               X -> dtr0   (the local copy of
                                                          the unit's DTR0)
      U assigned True under a test of
        NVM_RW_L and used as an `if` test     U -> unlock_required
    Returns a renamed copy (or fn itself if nothing had to be renamed)."""
    ren = {}
    loops = [n for n in ast.walk(fn) if isinstance(n, ast.For) and isinstance(
        n.iter, ast.Call) and unparse(n.iter.func) == "zip" and len(
            n.iter.args) == 2 and unparse(n.iter.args[0]) == "cls.locations"
        and isinstance(n.target, ast.Tuple) and len(n.target.elts) == 2 and
        all(isinstance(x, ast.Name) for x in n.target.elts)]
    if len(loops) == 1:
        a, b = loops[0].target.elts
        ren[a.id] = "location"
        ren[b.id] = "value"
        for n in ast.walk(loops[0]):
            if isinstance(n, ast.Compare) and len(n.ops) == 1 and isinstance(
                    n.ops[0], (ast.Eq, ast.NotEq)):
                l, r = n.left, n.comparators[0]
                for (x, y) in ((l, r), (r, l)):
                    if unparse(x) == a.id + ".address" and isinstance(
                            y, ast.Name):
                        ren[y.id] = "dtr0"
    # for L in cls.locations: ... raise MemoryValueNotWriteable   L -> location
    for n in ast.walk(fn):
        if isinstance(n, ast.For) and unparse(n.iter) == "cls.locations" and \
                isinstance(n.target, ast.Name) and any(
                    isinstance(x, ast.Raise) and "MemoryValueNotWriteable" in
                    unparse(x, 300) for x in ast.walk(n)):
            ren.setdefault(n.target.id, "location")
    flags = set()
    for n in ast.walk(fn):
        if isinstance(n, ast.If) and "NVM_RW_L" in unparse(n.test, 400):
            for st in n.body:
                if isinstance(st, ast.Assign) and len(
                        st.targets) == 1 and isinstance(
                            st.targets[0], ast.Name) and isinstance(
                                st.value, ast.Constant) and \
                        st.value.value is True:
                    flags.add(st.targets[0].id)
    tested = {n.test.id for n in ast.walk(fn) if isinstance(n, ast.If) and
              isinstance(n.test, ast.Name)}
    flags &= tested
    if len(flags) == 1:
        ren[flags.pop()] = "unlock_required"
    ren = {k: v for k, v in ren.items() if k != v}
    if not ren:
        return fn
    taken = {n.id for n in ast.walk(fn) if isinstance(n, ast.Name)} | {
        a.arg for a in fn.args.args + fn.args.kwonlyargs}
    # `location` bound by another loop over the locations is the same role
    # (every such loop rebinds it before reading it)
    loop_bound = set()
    for n in ast.walk(fn):
        if isinstance(n, ast.For):
            for x in ast.walk(n.target):
                if isinstance(x, ast.Name):
                    loop_bound.add(x.id)
    outside = set()

    def scan(stmts, bound):
        for st in stmts:
            if isinstance(st, ast.For):
                b2 = bound | {x.id for x in ast.walk(st.target)
                              if isinstance(x, ast.Name)}
                for x in ast.walk(st.iter):
                    if isinstance(x, ast.Name) and x.id not in bound:
                        outside.add(x.id)
                scan(st.body, b2)
                scan(st.orelse, bound)
                continue
            blocks = [getattr(st, f) for f in ("body", "orelse", "finalbody")
                      if isinstance(getattr(st, f, None), list)]
            if blocks and not isinstance(st, (ast.FunctionDef,
                                              ast.AsyncFunctionDef)):
                for f in ("test", "items"):
                    v = getattr(st, f, None)
                    for e in (v if isinstance(v, list) else [v]):
                        if e is not None:
                            for x in ast.walk(e):
                                if isinstance(x, ast.Name) and \
                                        x.id not in bound:
                                    outside.add(x.id)
                for b in blocks:
                    scan(b, bound)
                for h in getattr(st, "handlers", []):
                    scan(h.body, bound)
                continue
            for x in ast.walk(st):
                if isinstance(x, ast.Name) and x.id not in bound:
                    outside.add(x.id)
    scan(fn.body, set())
    shared_ok = {"location"} if "location" in loop_bound and \
        "location" not in outside else set()
    vals = [v for v in ren.values()]
    if any(v in taken and v not in ren and v not in shared_ok
           for v in vals) or len(set(vals) - shared_ok) != len(
               [v for v in vals if v not in shared_ok]):
        return fn          # the canonical name is used for something else
    from .inline import acopy
    fn = acopy(fn)
    for n in ast.walk(fn):
        if isinstance(n, ast.Name) and n.id in ren:
            n.id = ren[n.id]
    return fn


def method_cfg(world, cls_qname, name, inline_also=(), lift_values=False):
    r = world.method(cls_qname, name)
    from .unroll import expand_quantifiers
    from .inline import acopy
    fq = acopy(r[2])
    fn = fq if expand_quantifiers(fq) else r[2]
    if any(isinstance(n, ast.Call) and isinstance(n.func, ast.Name) and
           n.func.id == "enumerate" for n in ast.walk(fn)):
        from .normal import enumerate_index_to_zip
        fz = acopy(fn)
        if enumerate_index_to_zip(fz):
            fn = fz
    fn = role_names(fn)
    fn = normalise(fn, world, LOC, world.cls(cls_qname),
                   primitives=tuple(p for p in PRIMITIVES
                                    if p not in inline_also),
                   lift_values=lift_values)
    from .normal import fold_result_copies
    if fold_result_copies(fn) or any(
            isinstance(n, ast.Name) and "__" in n.id for n in ast.walk(fn)):
        # locals an inlined helper brought along are named by role as well
        fn = role_names(fn)
    q = "%s.%s" % (cls_qname, name)
    # `general = gear.general if isinstance(addr, GearAddress) else
    # device.general` followed by `yield general.X(...)` everywhere: after
    # the conditional callable is written out, every command is a diamond on
    # the same address test.  The rules read one command per yield site (the
    # pinned tree picks the class inside small factory functions).
    dia = [n for n in ast.walk(fn) if isinstance(n, ast.If) and unparse(
        n.test).startswith("isinstance(") and len(n.body) == 1 and len(
            n.orelse) == 1 and all(any(isinstance(x, ast.Yield)
                                       for x in ast.walk(b))
                                   for b in (n.body[0], n.orelse[0]))]
    if len(dia) >= 4 and len({unparse(n.test) for n in dia}) == 1:
        fn2 = _outline_factories(fn, world, dia)
        if fn2 is not None:
            fn, dia = fn2, []
    if len(dia) >= 4 and len({unparse(n.test) for n in dia}) == 1:
        raise AnalysisError(
            "%s picks the command set (gear / device) once and yields "
            "`<set>.X(...)` at every step (%d sites decided by `%s`); the "
            "memory rules read the command of a yield site, not a pair of "
            "alternatives" % (q, len(dia), unparse(dia[0].test)))
    cfg = gen_cfg(fn, q)
    ys = yields_of(cfg, world, LOC)
    for y in ys:
        if not y.is_from and y.cls is None and y.call is not None and \
                isinstance(y.call.func, ast.Attribute) and isinstance(
                    y.call.func.value, ast.Name) and not getattr(
                        y, "fn", None):
            # `general = gear.general if ... else device.general;
            #  yield general.DTR1(...)`: which command is sent is a value
            raise AnalysisError(
                "%s yields `%s`, a command class picked from a module "
                "chosen at run time; the memory rules resolve the command "
                "of every yield statically" % (q, unparse(y.call.func)))
    return fn, cfg, ys, q


def _outline_factories(fn, world, dia):
    """Each diamond `if isinstance(addr, GearAddress): [r =] yield
    gear.general.X(A) else: [r =] yield device.general.X(A)` is what the
    module's factory `_X(addr, ...)` returns for a gear / device address
    (the factory's own body is compared: same test, same two constructors,
    same use of its parameters): the diamond is written back as `[r =] yield
    _X(addr, A)`, the one-command-per-site form the rules read.  Returns the
    rewritten copy, or None when some diamond is not such a pair."""
    from .inline import acopy
    mod = world.repo.mod(LOC) if hasattr(world, "repo") else None
    facts = {}
    tree = mod.tree if mod is not None else None
    if tree is None:
        return None
    for f in tree.body:
        if isinstance(f, ast.FunctionDef) and f.name.startswith("_") and \
                f.body:
            b = [s_ for s_ in f.body if not (isinstance(s_, ast.Expr) and
                                             isinstance(s_.value,
                                                        ast.Constant))]
            if len(b) == 1 and isinstance(b[0], ast.If) and len(
                    b[0].body) == 1 and isinstance(b[0].body[0], ast.Return):
                facts[f.name] = (f, b[0])

    def split(stmt):
        """(target or None, Call) of `[t =] yield Call`"""
        if isinstance(stmt, ast.Expr) and isinstance(stmt.value, ast.Yield):
            return None, stmt.value.value
        if isinstance(stmt, ast.Assign) and len(stmt.targets) == 1 and \
                isinstance(stmt.value, ast.Yield):
            return stmt.targets[0], stmt.value.value
        return "bad", None
    repl = {}
    for d in dia:
        t1, c1 = split(d.body[0])
        t2, c2 = split(d.orelse[0])
        if t1 == "bad" or t2 == "bad" or not isinstance(
                c1, ast.Call) or not isinstance(c2, ast.Call):
            return None
        if (t1 is None) != (t2 is None) or (
                t1 is not None and unparse(t1) != unparse(t2)):
            return None
        if not (isinstance(c1.func, ast.Attribute) and isinstance(
                c2.func, ast.Attribute) and c1.func.attr == c2.func.attr and
                [unparse(a) for a in c1.args] == [unparse(a)
                                                  for a in c2.args] and
                not c1.keywords and not c2.keywords):
            return None
        name = "_" + c1.func.attr
        if name not in facts:
            return None
        f, fi = facts[name]
        # the factory: same test on its first parameter, the gear arm
        # returns the same constructor applied to its parameters
        ps = [a.arg for a in f.args.args]
        tparam = d.test.args[0] if isinstance(d.test, ast.Call) and \
            d.test.args else None
        if tparam is None or unparse(fi.test) != unparse(d.test).replace(
                unparse(tparam), ps[0], 1):
            return None
        rc = fi.body[0].value
        if not (isinstance(rc, ast.Call) and unparse(rc.func) == unparse(
                c1.func) and len(rc.args) == len(c1.args) and all(
                    isinstance(a, ast.Name) and a.id in ps
                    for a in rc.args)):
            return None
        # arguments of the factory call, by the parameter each constructor
        # argument comes from
        amap = {}
        for (pa, ca) in zip(rc.args, c1.args):
            if pa.id == ps[0]:
                if unparse(ca) != unparse(tparam):
                    return None
            amap[pa.id] = ca
        args = [acopy(tparam)] + [acopy(amap[p_]) for p_ in ps[1:]
                                  if p_ in amap]
        if len(args) != len(ps):
            return None
        call = ast.Call(ast.Name(name, ast.Load()), args, [])
        y = ast.Yield(call)
        new = ast.Expr(y) if t1 is None else ast.Assign([acopy(t1)], y)
        repl[id(d)] = ast.copy_location(new, d)
    out = acopy(fn)
    # acopy loses node identity: match by position
    olds = [n for n in ast.walk(fn) if isinstance(n, ast.If)]
    news = [n for n in ast.walk(out) if isinstance(n, ast.If)]
    if len(olds) != len(news):
        return None
    rmap = {id(nw): repl[id(od)] for od, nw in zip(olds, news)
            if id(od) in repl}

    class R(ast.NodeTransformer):
        def visit_If(self, n):
            if id(n) in rmap:
                return rmap[id(n)]
            return self.generic_visit(n)
    out = R().visit(out)
    ast.fix_missing_locations(out)
    return out
