"""Source-level desugaring applied to every module right after parsing, so
that all analyses read one core language:

  match subject:                     if subject == V:        (value / singleton
      case V: ...                        ...                  / or-patterns,
      case A | B: ...                elif subject in (A, B):  class patterns
      case C(): ...                      ...                  without
      case _: ...                    elif isinstance(subject, C): ...  arguments,
                                     else: ...                guards)

  if (n := f(x)) > 3: ...            n = f(x)
                                     if n > 3: ...

  x: int = -1   (in a function)      x = -1

  with suppress(E1, E2): BODY        try: BODY
  (contextlib's)                     except (E1, E2): pass

Also read: capture patterns (`case x if g(x)`), class patterns with keyword
sub-patterns, and sequence patterns over a tuple display subject
(`match a, b: case 0, _:`), element by element.  A `match` with patterns
outside this subset (star patterns, mappings, positional class patterns,
sequences over a non-display subject) is left as it is: the analyses then stop with
ANALYSIS-ERROR at that statement instead of guessing.  Line numbers are kept.
Only the analysers read the result; nothing is executed."""
import ast


def _pure_subject(e):
    for n in ast.walk(e):
        if isinstance(n, (ast.Call, ast.Await, ast.Yield, ast.YieldFrom,
                          ast.NamedExpr)):
            return False
    return True


def _copy(e):
    return ast.parse(ast.unparse(e), mode="eval").body


class _Counter:
    n = 0


_TUPLE_NAMES = [set()]


def _pattern_test(subject, pat, binds=None):
    """ast test for `subject` matching `pat`, or None if unsupported;
    True for an irrefutable pattern."""
    if isinstance(pat, ast.MatchValue):
        return ast.Compare(subject, [ast.Eq()], [pat.value])
    if isinstance(pat, ast.MatchSingleton):
        if isinstance(pat.value, bool) and (isinstance(
                subject, ast.Compare) or (isinstance(
                    subject, ast.UnaryOp) and isinstance(
                        subject.op, ast.Not))):
            # the subject is the outcome of a test: `case True` is the test
            return subject if pat.value else ast.UnaryOp(ast.Not(), subject)
        return ast.Compare(subject, [ast.Is()], [ast.Constant(pat.value)])
    if isinstance(pat, ast.MatchAs) and pat.pattern is None and \
            pat.name is None:
        return True
    if isinstance(pat, ast.MatchOr):
        alts = [_pattern_test(subject, p) for p in pat.patterns]   # no binds
        if any(a is None for a in alts):
            return None
        if any(a is True for a in alts):
            return True
        if all(isinstance(p, ast.MatchValue) for p in pat.patterns):
            return ast.Compare(subject, [ast.In()], [ast.Tuple(
                [p.value for p in pat.patterns], ast.Load())])
        return ast.BoolOp(ast.Or(), alts)
    if isinstance(pat, ast.MatchClass) and not pat.patterns and \
            not pat.kwd_patterns:
        return ast.Call(ast.Name("isinstance", ast.Load()),
                        [subject, pat.cls], [])
    if isinstance(pat, ast.MatchClass) and len(pat.patterns) == 1 and \
            not pat.kwd_patterns and isinstance(pat.cls, ast.Name) and \
            pat.cls.id in ("int", "str", "float", "bytes", "bool",
                           "bytearray", "list", "tuple", "dict", "set",
                           "frozenset") and _pure_subject(subject):
        # `int(x)`: for these builtins the one positional sub-pattern is
        # matched against the subject itself
        t1 = ast.Call(ast.Name("isinstance", ast.Load()),
                      [subject, pat.cls], [])
        sp0 = pat.patterns[0]
        if pat.cls.id in ("tuple", "list") and isinstance(
                sp0, ast.MatchSequence) and not any(
                    isinstance(x, ast.MatchStar) for x in sp0.patterns):
            # `tuple((a, b))`: a tuple of that length, element by element
            tests = [t1, ast.Compare(
                ast.Call(ast.Name("len", ast.Load()), [subject], []),
                [ast.Eq()], [ast.Constant(len(sp0.patterns))])]
            for i, ep in enumerate(sp0.patterns):
                t = _pattern_test(ast.Subscript(
                    subject, ast.Constant(i), ast.Load()), ep, binds)
                if t is None:
                    return None
                if t is not True:
                    tests.append(t)
            return ast.BoolOp(ast.And(), tests)
        t2 = _pattern_test(subject, sp0, binds)
        if t2 is None:
            return None
        return t1 if t2 is True else ast.BoolOp(ast.And(), [t1, t2])
    if isinstance(pat, ast.MatchClass) and not pat.patterns and \
            _pure_subject(subject):
        # C(attr=pattern, ...): isinstance and the attribute tests
        tests = [ast.Call(ast.Name("isinstance", ast.Load()),
                          [subject, pat.cls], [])]
        for a, sp in zip(pat.kwd_attrs, pat.kwd_patterns):
            t = _pattern_test(ast.Attribute(subject, a, ast.Load()), sp,
                              binds)
            if t is None:
                return None
            if t is not True:
                tests.append(t)
        return tests[0] if len(tests) == 1 else ast.BoolOp(ast.And(), tests)
    if isinstance(pat, ast.MatchAs) and pat.pattern is None and \
            pat.name is not None and binds is not None and \
            _pure_subject(subject):
        binds.append((pat.name, subject))
        return True
    if isinstance(pat, ast.MatchAs) and pat.pattern is not None and \
            pat.name is not None and binds is not None and \
            _pure_subject(subject):
        # `case P as name`: the test of P, then name bound to the subject
        t = _pattern_test(subject, pat.pattern, binds)
        if t is None:
            return None
        binds.append((pat.name, subject))
        return t
    if isinstance(pat, ast.MatchSequence) and isinstance(
            subject, ast.Name) and subject.id in _TUPLE_NAMES[0] and not any(
                isinstance(x, ast.MatchStar) for x in pat.patterns):
        # the function's own *args tuple: length and elements
        tests = [ast.Compare(
            ast.Call(ast.Name("len", ast.Load()), [subject], []),
            [ast.Eq()], [ast.Constant(len(pat.patterns))])]
        for i, sp in enumerate(pat.patterns):
            t = _pattern_test(ast.Subscript(subject, ast.Constant(i),
                                            ast.Load()), sp, binds)
            if t is None:
                return None
            if t is not True:
                tests.append(t)
        return tests[0] if len(tests) == 1 else ast.BoolOp(ast.And(), tests)
    if isinstance(pat, ast.MatchSequence) and isinstance(
            subject, ast.Tuple) and len(pat.patterns) == len(
                subject.elts) and not any(
                    isinstance(x, ast.MatchStar) for x in pat.patterns):
        # a tuple display matched element by element (no tuple is built)
        tests = []
        for e, sp in zip(subject.elts, pat.patterns):
            t = _pattern_test(e, sp, binds)
            if t is None:
                return None
            if t is not True:
                tests.append(t)
        if not tests:
            return True
        return tests[0] if len(tests) == 1 else ast.BoolOp(ast.And(), tests)
    return None


class Desugar(ast.NodeTransformer):
    def _block(self, stmts):
        out = []
        for s in stmts:
            r = self.visit(s)
            if isinstance(r, list):
                out += r
            elif r is not None:
                out.append(r)
        return out

    def generic_visit(self, node):
        for fld in ("body", "orelse", "finalbody"):
            v = getattr(node, fld, None)
            if isinstance(v, list) and v and isinstance(v[0], ast.stmt):
                setattr(node, fld, self._block(v))
        if isinstance(node, ast.Try):
            for h in node.handlers:
                h.body = self._block(h.body)
        if isinstance(node, ast.Match):
            for c in node.cases:
                c.body = self._block(c.body)
        return node

    def visit_Match(self, node):
        self.generic_visit(node)
        subject = node.subject
        pre = []
        if isinstance(subject, ast.Tuple) and not _pure_subject(subject):
            elts = []
            for e in subject.elts:
                if _pure_subject(e):
                    elts.append(e)
                    continue
                _Counter.n += 1
                tmp = "__match_%d" % _Counter.n
                pre.append(ast.copy_location(ast.Assign(
                    [ast.Name(tmp, ast.Store())], e), node))
                elts.append(ast.Name(tmp, ast.Load()))
            subject = ast.Tuple(elts, ast.Load())
        elif not _pure_subject(subject):
            _Counter.n += 1
            tmp = "__match_%d" % _Counter.n
            pre.append(ast.copy_location(ast.Assign(
                [ast.Name(tmp, ast.Store())], subject), node))
            subject = ast.Name(tmp, ast.Load())
        tests = []
        for c in node.cases:
            pat = c.pattern
            if isinstance(pat, ast.MatchAs) and pat.pattern is None and \
                    pat.name is not None and _pure_subject(subject):
                # capture pattern: `case x if g(x)` binds x to the subject
                name = pat.name

                class Sub(ast.NodeTransformer):
                    def visit_Name(self, n):
                        if n.id == name and isinstance(n.ctx, ast.Load):
                            return ast.copy_location(
                                ast.parse(ast.unparse(subject),
                                          mode="eval").body, n)
                        return n
                stored = any(isinstance(n, ast.Name) and n.id == name and
                             isinstance(n.ctx, (ast.Store, ast.Del))
                             for b in c.body for n in ast.walk(b))
                if stored:
                    bind = ast.copy_location(ast.Assign(
                        [ast.Name(name, ast.Store())], subject), pat)
                    c.body = [bind] + list(c.body)
                else:
                    # the name is just another way to write the subject
                    c.body = [Sub().visit(b) for b in c.body]
                t = True
                if c.guard is not None:
                    t = Sub().visit(c.guard)
                tests.append(t)
                continue
            binds = []
            t = _pattern_test(subject, pat, binds)
            if t is None:
                return node          # unsupported pattern: leave the match
            if binds:
                if c.guard is not None and any(
                        isinstance(n, ast.Name) and n.id in {
                            b[0] for b in binds}
                        for n in ast.walk(c.guard)):
                    # guard on a nested capture: the captured part of the
                    # (side-effect free) subject written out in the guard
                    bd = dict(binds)

                    class SubG(ast.NodeTransformer):
                        def visit_Name(self, n):
                            if n.id in bd and isinstance(n.ctx, ast.Load):
                                return ast.copy_location(_copy(bd[n.id]), n)
                            return n
                    c.guard = SubG().visit(c.guard)
                c.body = [ast.copy_location(ast.Assign(
                    [ast.Name(nm, ast.Store())], _copy(ex)), pat)
                    for nm, ex in binds] + list(c.body)
            if c.guard is not None:
                t = c.guard if t is True else ast.BoolOp(ast.And(),
                                                         [t, c.guard])
            tests.append(t)
        # build the chain from the last case backwards
        chain = []
        for c, t in reversed(list(zip(node.cases, tests))):
            if t is True:
                chain = list(c.body)
            else:
                chain = [ast.copy_location(ast.If(t, list(c.body), chain),
                                           c.pattern)]
        out = pre + chain
        for s in out:
            ast.fix_missing_locations(s)
        return out

    def visit_With(self, node):
        """with contextlib.suppress(E, ...): BODY
           ->  try: BODY / except (E, ...): pass"""
        self.generic_visit(node)
        if len(node.items) == 1 and node.items[0].optional_vars is None:
            c = node.items[0].context_expr
            if isinstance(c, ast.Call) and not c.keywords and c.args and \
                    ast.unparse(c.func) in self.suppress_names:
                typ = c.args[0] if len(c.args) == 1 else ast.Tuple(
                    list(c.args), ast.Load())
                h = ast.ExceptHandler(typ, None, [ast.Pass()])
                t = ast.Try(body=node.body, handlers=[h], orelse=[],
                            finalbody=[])
                ast.copy_location(t, node)
                ast.copy_location(h, node)
                ast.fix_missing_locations(t)
                return t
        return node

    def visit_If(self, node):
        self.generic_visit(node)
        return self._if_walrus(node)

    def _if_walrus(self, node):
        """Leading walrus of the test hoisted; a walrus in a later conjunct
        of `A and B(w := E) and C` splits the test where it is evaluated:
            if A:
                w = E
                if B(w) and C: BODY
                else: ORELSE
            else: ORELSE"""
        hoisted = _hoist_walrus(node, "test")
        t = node.test
        if isinstance(t, ast.BoolOp) and isinstance(t.op, ast.And):
            k = next((i for i, v in enumerate(t.values) if i > 0 and any(
                isinstance(x, ast.NamedExpr) for x in ast.walk(v))), None)
            if k is not None and not any(
                    isinstance(x, ast.NamedExpr)
                    for v in t.values[:k] for x in ast.walk(v)):
                head = t.values[:k]
                tail = t.values[k:]
                import copy
                inner = ast.copy_location(ast.If(
                    tail[0] if len(tail) == 1 else ast.BoolOp(ast.And(),
                                                              tail),
                    node.body, copy.deepcopy(node.orelse)), node)
                inner_r = self._if_walrus(inner)
                node.test = head[0] if len(head) == 1 else ast.BoolOp(
                    ast.And(), head)
                node.body = inner_r if isinstance(inner_r, list) else [
                    inner_r]
                ast.fix_missing_locations(node)
        return hoisted + [node] if hoisted else node

    def _simple(self, node, fld="value"):
        hoisted = _hoist_walrus(node, fld)
        return hoisted + [node] if hoisted else node

    def visit_Assign(self, node):
        return self._simple(node)

    def visit_AnnAssign(self, node):
        """`x: T = v` is `x = v` (the annotation of a local or attribute
        is not evaluated into anything the analyses read)."""
        if node.value is not None and isinstance(
                node.target, (ast.Name, ast.Attribute)) and self.in_func:
            a = ast.copy_location(ast.Assign([node.target], node.value),
                                  node)
            ast.fix_missing_locations(a)
            return self._simple(a)
        if node.value is None and isinstance(node.target, ast.Name) and \
                self.in_func:
            return ast.copy_location(ast.Pass(), node)
        return node

    def visit_FunctionDef(self, node):
        saved = self.in_func
        self.in_func = True
        # `*args` is a tuple: a sequence pattern on it needs no type test
        sv = _TUPLE_NAMES[0]
        stored = {n.id for n in ast.walk(node) if isinstance(n, ast.Name)
                  and isinstance(n.ctx, (ast.Store, ast.Del))}
        _TUPLE_NAMES[0] = ({node.args.vararg.arg} - stored) \
            if node.args.vararg else set()
        # a parameter annotated as a tuple, never re-bound, is one; so is a
        # local bound once to a slice of such a name
        for a in node.args.args + node.args.kwonlyargs:
            if a.annotation is not None and a.arg not in stored and \
                    ast.unparse(a.annotation).split("[")[0] in (
                        "tuple", "Tuple", "typing.Tuple"):
                _TUPLE_NAMES[0] = _TUPLE_NAMES[0] | {a.arg}
        grew = True
        while grew:
            grew = False
            for n in ast.walk(node):
                if isinstance(n, ast.Assign) and len(n.targets) == 1 and \
                        isinstance(n.targets[0], ast.Name) and isinstance(
                            n.value, ast.Subscript) and isinstance(
                                n.value.slice, ast.Slice) and isinstance(
                                    n.value.value, ast.Name) and \
                        n.value.value.id in _TUPLE_NAMES[0] and \
                        n.targets[0].id not in _TUPLE_NAMES[0] and sum(
                            1 for x in ast.walk(node) if isinstance(
                                x, ast.Name) and x.id == n.targets[0].id
                            and isinstance(x.ctx, (ast.Store, ast.Del))
                        ) == 1:
                    _TUPLE_NAMES[0] = _TUPLE_NAMES[0] | {n.targets[0].id}
                    grew = True
        try:
            return self.generic_visit(node)
        finally:
            self.in_func = saved
            _TUPLE_NAMES[0] = sv

    visit_AsyncFunctionDef = visit_FunctionDef

    def visit_Return(self, node):
        return self._simple(node) if node.value is not None else node

    def visit_Expr(self, node):
        return self._simple(node)


def _hoist_walrus(stmt, fld):
    """NamedExpr nodes that are evaluated unconditionally and first in the
    expression `stmt.<fld>` become assignments before the statement."""
    e = getattr(stmt, fld)
    out = []

    def first_evaluated(x):
        """Yield sub-expressions in evaluation order while evaluation is
        unconditional; stop at short-circuit / conditional / lambda /
        comprehension boundaries after their first operand."""
        if isinstance(x, ast.NamedExpr):
            yield x
            return
        if isinstance(x, ast.BoolOp):
            yield from first_evaluated(x.values[0])
            return
        if isinstance(x, ast.IfExp):
            yield from first_evaluated(x.test)
            return
        if isinstance(x, (ast.Lambda, ast.ListComp, ast.SetComp,
                          ast.DictComp, ast.GeneratorExp)):
            return
        if isinstance(x, ast.Compare):
            yield from first_evaluated(x.left)
            if len(x.comparators) == 1:
                yield from first_evaluated(x.comparators[0])
            return
        for ch in ast.iter_child_nodes(x):
            if isinstance(ch, ast.expr):
                yield from first_evaluated(ch)
    targets = list(first_evaluated(e))
    if not targets:
        return []

    class R(ast.NodeTransformer):
        def visit_NamedExpr(self, n):
            if any(n is t for t in targets):
                return ast.copy_location(ast.Name(n.target.id, ast.Load()),
                                         n)
            return self.generic_visit(n)
    for t in targets:
        if any(isinstance(x, ast.NamedExpr) for x in ast.walk(t.value)):
            return []
        a = ast.copy_location(ast.Assign([ast.Name(t.target.id, ast.Store())],
                                         t.value), stmt)
        ast.fix_missing_locations(a)
        out.append(a)
    setattr(stmt, fld, R().visit(e))
    ast.fix_missing_locations(stmt)
    return out


def desugar(tree):
    d = Desugar()
    d.in_func = False
    d.suppress_names = set()
    for n in tree.body:
        if isinstance(n, ast.ImportFrom) and n.module == "contextlib":
            for a in n.names:
                if a.name == "suppress":
                    d.suppress_names.add(a.asname or "suppress")
        if isinstance(n, ast.Import):
            for a in n.names:
                if a.name == "contextlib":
                    d.suppress_names.add((a.asname or "contextlib") +
                                         ".suppress")
    tree.body = d._block(tree.body)

    return tree
