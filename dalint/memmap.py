"""Extraction of the declared memory map (banks, values, locations) by
partial evaluation of the class bodies in dali/memory/*.py."""
import ast

from .core import AnalysisError
from .fold import Folder, Record, UNKNOWN, EnumMember, ClassRef
from .front import ClassInfo

LOC = "dali.memory.location"


def _ext(folder, tgt, args, kwargs):
    c = tgt.cls
    if c.qname == LOC + ".MemoryLocation":
        names = ["address", "default", "reset", "type_"]
        d = dict(zip(names, args))
        d.update(kwargs)
        return Record("MemoryLocation", cls=c, **{n: d.get(n) for n in names})
    if c.qname == LOC + ".MemoryBank":
        names = ["address", "last_address", "has_lock", "has_latch"]
        d = {"has_lock": False, "has_latch": False}
        d.update(zip(names, args))
        d.update(kwargs)
        return Record("MemoryBank", cls=c, **d)
    return UNKNOWN


FAMILIES = ["ScaledNumericValue", "FixedScaleNumericValue",
            "TemperatureValue", "VersionNumberValue", "NumericValue",
            "StringValue", "BinaryValue", "ManufacturerSpecificValue",
            "MemoryValue"]


class ValueDecl:
    pass


def memory_folder(world):
    return Folder(world, ext_call=_ext)


def extract(world, folder=None):
    """Returns (banks, values): banks = {bank variable qualified name:
    Record}, values = list of ValueDecl in definition order."""
    folder = folder or memory_folder(world)
    base = world.cls(LOC + ".MemoryValue")
    banks = {}
    for mname, ns in world.ns.items():
        if not mname.startswith("dali.memory"):
            continue
        for name, b in ns.items():
            if b.kind == "expr" and b.mod == mname and isinstance(
                    b.value, ast.Call):
                v = folder.eval(b.value, {}, mname)
                if isinstance(v, Record) and v.kind == "MemoryBank":
                    banks[mname + "." + name] = v
    values = []
    for c in world.class_order:
        if base not in c.mro or c is base:
            continue
        if "locations" not in c.attrs and not any(
                isinstance(k, ClassInfo) and k is not base and
                "locations" in k.attrs for k in c.mro):
            continue      # abstract helper class
        if c.outer is not None:
            continue      # LastAddress / LockByte are synthesised per bank
        d = ValueDecl()
        d.cls = c
        d.name = c.name
        d.qname = c.qname
        # which bank variable
        bexpr = c.lookup("bank")
        d.bank_var = None
        if bexpr is not None and bexpr[1] == "attr":
            e = bexpr[2]
            if isinstance(e, ast.Name):
                b = world.lookup(bexpr[0].mod, e.id)
                if b is not None and b.kind == "expr":
                    d.bank_var = b.mod + "." + e.id
        d.bank = folder.class_attr(c, "bank")
        locs = folder.class_attr(c, "locations")
        if isinstance(locs, Record):
            locs = (locs,)
        if locs is UNKNOWN or not isinstance(d.bank, Record):
            raise AnalysisError("cannot fold bank/locations of %s" % c.qname)
        d.locations = list(locs)
        d.family = None
        for k in c.mro:
            if isinstance(k, ClassInfo) and k.name in FAMILIES and \
                    k.mod.startswith("dali.memory"):
                d.family = k.name
                break
        for a in ("signed", "mask_supported", "tmask_supported", "min_value",
                  "max_value", "unit", "scaling_factor", "mask_length_adjust",
                  "offset"):
            v = folder.class_attr(c, a) if c.lookup(a) is not None else None
            setattr(d, a, None if v is UNKNOWN else v)
        values.append(d)
    return banks, values


def type_name(t):
    return t.name if isinstance(t, EnumMember) else t


def summarise(values):
    out = []
    for d in values:
        addrs = [l.address for l in d.locations]
        types = [type_name(l.type_) for l in d.locations]
        out.append({
            "name": d.name, "module": d.cls.mod, "bank": d.bank.address,
            "bank_var": d.bank_var.split(".")[-1] if d.bank_var else None,
            "locations": addrs, "types": types, "family": d.family,
            "signed": d.signed, "mask": d.mask_supported,
            "tmask": d.tmask_supported, "min": d.min_value,
            "max": d.max_value, "unit": d.unit,
            "scaling_factor": str(d.scaling_factor)
            if d.scaling_factor is not None else None,
            "mask_length_adjust": d.mask_length_adjust,
        })
    return out
