"""Branch conditions under which a CFG node is reached: the DNF over the
acyclic paths from the entry (exceptional edges excluded), with each atomic
CFG test turned into a formula by the caller's `tree` function (default:
pred.Parser.tree).  Used by rules of the form "X is sent / raised exactly
when ..." that must not depend on how the ifs are nested or negated."""
from . import pred
from .core import AnalysisError


def path_conds(cfg, target, tree, avoid=(), limit=20000, what="rule"):
    out = []
    count = [0]
    avoid = set(avoid)

    def walk(n, conds, onpath):
        count[0] += 1
        if count[0] > limit:
            raise AnalysisError("%s: too many paths" % what)
        if n is target:
            out.append(pred.dnf(("and", conds)))
            return
        if n.id in onpath or n.id in avoid:
            return
        for (l, m) in n.succ:
            if l == "exc":
                continue
            c = conds
            if n.kind == "test" and l in ("T", "F"):
                t = tree(n.ast)
                if t is not None:
                    c = conds + [t if l == "T" else ("not", t)]
            walk(m, c, onpath | {n.id})
    walk(cfg.entry, [], frozenset())
    return pred.union(*out) if out else frozenset()


def project(d, keep):
    return frozenset(frozenset(a for a in c if keep(a)) for c in d)
