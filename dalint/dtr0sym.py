"""Symbolic tracking of the bus unit's DTR0 and of local integer variables
through a memory-access generator (path-sensitive, on the CFG).

Values are pairs (base, k): `base` is the canonical text of a pure expression
(or an integer constant, or "None"), k the number of auto-increments applied
since (IEC 62386-102: READ / WRITE MEMORY LOCATION increment DTR0, saturating
at 255).  A world carries ("U", base, k) for the unit's DTR0 and
("V", name, base, k) for every local assigned such a value.

  yield DTR0(addr, X)                  U := val(X)
  yield Read/WriteMemoryLocation*      event; U := inc(U)
  x = E                                V[x] := val(E)   (min(y + 1, 255), y + 1
                                        and `x += 1` are inc; conditional
                                        expressions are decided by the path's
                                        branch facts when possible)
  branch  A == B  taken                every slot holding val(A) now holds
                                        val(B) (the more informative one)
  for v in ...: (next iteration)       values mentioning v become prev(v)...

The rules then ask for U at each access.  Nothing is executed; unknown values
are "?" and never satisfy a requirement."""
import ast

from .core import unparse
from .cfg import forward_worlds, _walk_no_nested
from .seq import cond_edge_transfer, kill_conds_on_assign

UNK = ("?", 0)


def _fold(v):
    b, k = v
    if b == "?":
        return UNK
    try:
        return (str(min(int(b) + k, 255)), 0)
    except ValueError:
        return (b, k)


def inc(v, n=1):
    if v[0] in ("?", "None"):
        return UNK
    v = _fold((v[0], v[1] + n))
    if v[1] > 4:
        return UNK      # keeps the domain finite
    return v


class Dtr0Sym:
    def __init__(self, cfg, ys, label, after_from=None, init_u=UNK):
        self.cfg, self.ys, self.label = cfg, ys, label
        self.ynode = {y.node.id: y for y in ys}
        self.after_from = after_from or (lambda y: None)
        self.init_u = init_u
        self.events = {}          # node id -> kind
        self.cet = cond_edge_transfer()
        self.W = forward_worlds(cfg, self.transfer, self.edge,
                                init=frozenset([("U",) + init_u]))

    # -- values ------------------------------------------------------------
    def val(self, e, st):
        if isinstance(e, ast.Constant):
            if e.value is None:
                return ("None", 0)
            if isinstance(e.value, int) and not isinstance(e.value, bool):
                return (str(e.value), 0)
            return UNK
        if isinstance(e, ast.Name):
            for f in st:
                if f[0] == "V" and f[1] == e.id:
                    if f[2] == "?":
                        break
                    return (f[2], f[3])
            return (e.id, 0)
        if isinstance(e, ast.Call) and unparse(e.func) == "min" and len(
                e.args) == 2:
            a, b = e.args
            if unparse(a) == "255":
                a, b = b, a
            if unparse(b) == "255":
                return self.val(a, st)      # saturation is part of inc()
        if isinstance(e, ast.BinOp) and isinstance(e.op, ast.Add):
            a, b = e.left, e.right
            if isinstance(a, ast.Constant) and isinstance(a.value, int):
                a, b = b, a
            if isinstance(b, ast.Constant) and isinstance(b.value, int) \
                    and b.value >= 0:
                return inc(self.val(a, st), b.value)
        if isinstance(e, ast.IfExp):
            t = self.truth(e.test, st)
            if t is True:
                return self.val(e.body, st)
            if t is False:
                return self.val(e.orelse, st)
            a, b = self.val(e.body, st), self.val(e.orelse, st)
            return a if a == b else UNK
        if isinstance(e, (ast.Attribute, ast.Subscript)):
            for n in ast.walk(e):
                if isinstance(n, (ast.Call, ast.Await, ast.Yield,
                                  ast.YieldFrom)):
                    return UNK
            return (unparse(e), 0)
        return UNK

    def truth(self, t, st):
        """Decide a test from the path's branch facts, else None."""
        if isinstance(t, ast.BoolOp):
            vs = [self.truth(v, st) for v in t.values]
            if isinstance(t.op, ast.And):
                if any(v is False for v in vs):
                    return False
                return True if all(v is True for v in vs) else None
            if any(v is True for v in vs):
                return True
            return False if all(v is False for v in vs) else None
        if isinstance(t, ast.UnaryOp) and isinstance(t.op, ast.Not):
            v = self.truth(t.operand, st)
            return None if v is None else not v
        from .seq import norm_test
        txt, pol = norm_test(t)
        if ("cond", txt, True) in st:
            return pol
        if ("cond", txt, False) in st:
            return not pol
        return None

    # -- transfer ----------------------------------------------------------
    def _set(self, st, slot, v):
        st = frozenset(f for f in st if not (
            f[0] == slot[0] and (slot[0] == "U" or f[1] == slot[1])))
        if slot[0] == "V":
            # values that were expressed through the old value of the name
            st = frozenset(
                (f[:-2] + UNK) if f[0] in ("U", "V") and _mentions(
                    f[-2], slot[1]) else f for f in st)
        v = _fold(v)
        if slot[0] == "V" and v == UNK:
            return st            # untracked: the name stands for itself
        return st | {slot + v}

    def u(self, st):
        for f in st:
            if f[0] == "U":
                return (f[1], f[2])
        return UNK

    def transfer(self, node, st):
        st = kill_conds_on_assign(node, st)
        a = node.ast
        y = self.ynode.get(node.id)
        if y is not None:
            nm = self.label(y)
            if nm == "DTR0":
                arg = y.arg(1)
                st = self._set(st, ("U",), self.val(arg, st)
                               if arg is not None else UNK)
            elif nm in ("ReadMemoryLocation", "WriteMemoryLocation",
                        "WriteMemoryLocationNoReply"):
                st = self._set(st, ("U",), inc(self.u(st)))
            elif nm.startswith("from:"):
                v = self.after_from(y)
                st = self._set(st, ("U",), v if v is not None else UNK)
        if node.kind == "stmt" and isinstance(a, ast.Assign) and len(
                a.targets) == 1 and isinstance(a.targets[0], ast.Name):
            v = a.value
            if isinstance(v, (ast.Yield, ast.YieldFrom, ast.Await)):
                st = self._set(st, ("V", a.targets[0].id), UNK)
            else:
                st = self._set(st, ("V", a.targets[0].id), self.val(v, st))
        elif node.kind == "stmt" and isinstance(a, ast.AugAssign) and \
                isinstance(a.target, ast.Name) and isinstance(
                    a.op, ast.Add) and isinstance(
                        a.value, ast.Constant) and isinstance(
                            a.value.value, int):
            st = self._set(st, ("V", a.target.id), inc(self.val(
                a.target, st), a.value.value))
        return st

    def _enter_loop(self, src, dst, st):
        a = dst.ast
        names = {n.id for n in ast.walk(a.target) if isinstance(n, ast.Name)}
        tgt = unparse(a.target)
        rng = _range_step1(a)
        first = src.info.get("iter_of") is a
        start = None
        if rng:
            start = self.val(a.iter.args[0], st) if len(
                a.iter.args) == 2 else ("0", 0)
        new = set()
        for f in st:
            if f[0] in ("U", "V"):
                v = (f[-2], f[-1])
                if rng and first and v == start and v[0] != "?":
                    f = f[:-2] + (tgt, 0)
                elif rng and not first and v[0] == tgt and v[1] >= 1:
                    f = f[:-2] + (tgt, v[1] - 1)
                elif any(_mentions(v[0], n) for n in names) and \
                        not v[0].startswith("prev("):
                    f = f[:-2] + ("prev(" + v[0] + ")", min(v[1], 2))
            new.add(f)
        return frozenset(new)

    def edge(self, src, label, dst, st):
        st = self.cet(src, label, dst, st)
        if st is None:
            return None
        if dst.kind == "for" and label != "exc":
            st = self._enter_loop(src, dst, st)
        if src.kind == "test" and isinstance(src.ast, ast.Compare) and len(
                src.ast.ops) == 1 and isinstance(
                    src.ast.ops[0], (ast.Eq, ast.NotEq)):
            equal = (label == "T") == isinstance(src.ast.ops[0], ast.Eq)
            if equal and label in ("T", "F"):
                l, r = src.ast.left, src.ast.comparators[0]
                vl, vr = self.val(l, st), self.val(r, st)
                if "None" in (vl[0], vr[0]) and vl != vr:
                    return None         # None never equals an address
                # prefer the side that names a plain expression
                for (old, new) in ((vl, vr), (vr, vl)):
                    if old == new or old[0] == "?":
                        continue
                    if isinstance(l if old is vl else r, ast.Name):
                        upd = set()
                        for f in st:
                            if f[0] in ("U", "V") and (f[-2], f[-1]) == old:
                                f = f[:-2] + new
                            upd.add(f)
                        st = frozenset(upd)
                        break
        return st

    # -- queries -----------------------------------------------------------
    def u_at(self, node):
        """Set of U values over the worlds reaching node (before it)."""
        return {self.u(w) for w in self.W.at(node)}


def _mentions(base, name):
    import re
    return re.search(r"(?<![A-Za-z0-9_.])%s(?![A-Za-z0-9_])" % re.escape(
        name), base) is not None


def _range_step1(for_ast):
    it = for_ast.iter
    return isinstance(it, ast.Call) and unparse(it.func) == "range" and \
        len(it.args) in (1, 2) and isinstance(for_ast.target, ast.Name)
