"""Checker self-test (thorough tier): every rule is tried both ways on
scratch copies of the tree under analysis.

  mutant  - one property-breaking edit; the check must report a violation
            (of one of the expected rules when the variant names them)
  twin    - a behaviour-preserving rewrite; the check must stay silent
  seed    - a stored seeded change (/verif/seeded/<id>/patch.diff)

Variants are text edits (file, old, new) applied to a copy of <repo>/dali in
a temporary directory that is removed as soon as the variant is analysed.
Nothing is imported or run from the copy; it is only parsed.  A variant
whose `old` text is not found exactly once is reported as inapplicable
(the tree under analysis has moved on) and never counts against the tree.
The self-test result is evidence about the checker, not about the tree: it
is printed and written to the evidence file and does not change the exit
status of the property check."""
import contextlib
import io
import json
import os
import shutil
import subprocess
import tempfile
from concurrent.futures import ProcessPoolExecutor

from .core import VERIF


def load_variants(pid):
    out = []
    p = os.path.join(VERIF, "selftest", "%s.json" % pid)
    if os.path.exists(p):
        with open(p) as fh:
            for v in json.load(fh)["variants"]:
                out.append(v)
    rv = os.path.join(VERIF, "selftest", "reverts")
    if os.path.isdir(rv):
        for f in sorted(os.listdir(rv)):
            if f.startswith(pid + "-") and f.endswith(".diff"):
                # a repaired defect put back: the rule that found it must
                # fire again (a `fixed:` entry suppresses nothing)
                out.append({"name": "revert:" + f[:-5], "kind": "mutant",
                            "patch": os.path.join(rv, f), "expect": []})
    sd = os.path.join(VERIF, "seeded")
    if os.path.isdir(sd):
        for d in sorted(os.listdir(sd)):
            mp = os.path.join(sd, d, "meta.json")
            if not os.path.exists(mp):
                continue
            with open(mp) as fh:
                meta = json.load(fh)
            if pid == meta.get("property") or pid in meta.get("detected_by",
                                                             []):
                out.append({"name": "seed:" + d,
                            "kind": meta.get("kind", "mutant"),
                            "patch": os.path.join(sd, d, "patch.diff"),
                            "expect": [],
                            "allow_exit2": pid in meta.get("refused_by", []),
                            "other_checks": [c for c in meta.get(
                                "detected_by", []) if c != pid]
                            if pid == meta.get("property") else [],
                            "known_limitation": meta.get(
                                "known_limitation")})
    return out


def _analyse(pid, root):
    from .cli import run_check
    from . import core
    buf = io.StringIO()
    fired = []
    orig = core.finish

    def fin(run, write_evidence=True):
        known = core.load_known()
        kset = {(k["property"], k["key"]) for k in known.get("known", [])}
        for f in run.findings:
            if (run.pid, f.key) not in kset:
                fired.append((f.rule, f.construct))
        return 1 if fired else 0
    from . import cli
    cli.finish = fin
    try:
        with contextlib.redirect_stdout(buf):
            rc = run_check(pid, "quick", root, write_evidence=False)
    finally:
        cli.finish = orig
    return rc, fired, buf.getvalue()[-600:]


def run_variant(args):
    pid, root, v = args
    tmp = tempfile.mkdtemp(prefix="dalint-st-")
    try:
        shutil.copytree(os.path.join(root, "dali"), os.path.join(tmp, "dali"),
                        ignore=shutil.ignore_patterns("__pycache__"))
        if "patch" in v:
            r = subprocess.run(["patch", "-p1", "-s", "-F3", "-d", tmp,
                                "-i", v["patch"]], capture_output=True,
                               text=True)
            if r.returncode != 0:
                return (v["name"], v["kind"], "inapplicable", [],
                        "patch does not apply")
        for e in v.get("edits", []):
            p = os.path.join(tmp, e["file"])
            if not os.path.exists(p):
                return (v["name"], v["kind"], "inapplicable", [], "no file")
            with open(p) as fh:
                s = fh.read()
            if "occurrence" in e:
                parts = s.split(e["old"])
                k = e["occurrence"]
                if len(parts) - 1 != e.get("of", len(parts) - 1) or \
                        k >= len(parts) - 1:
                    return (v["name"], v["kind"], "inapplicable", [],
                            "anchor text of the edit not found as expected "
                            "in %s" % e["file"])
                s = e["old"].join(parts[:k + 1]) + e["new"] + \
                    e["old"].join(parts[k + 1:])
            else:
                if s.count(e["old"]) != e.get("count", 1):
                    return (v["name"], v["kind"], "inapplicable", [],
                            "anchor text of the edit not found exactly %d "
                            "time(s) in %s" % (e.get("count", 1), e["file"]))
                s = s.replace(e["old"], e["new"])
            try:
                compile(s, p, "exec")
            except SyntaxError as ex:
                return (v["name"], v["kind"], "inapplicable", [],
                        "edit does not compile: %s" % ex)
            with open(p, "w") as fh:
                fh.write(s)
        rc, fired, tail = _analyse(pid, tmp)
        if rc == 2:
            return (v["name"], v["kind"], "analysis-error", [], tail)
        return (v["name"], v["kind"], "fired" if fired else "silent",
                sorted({f[0] for f in fired}), "")
    finally:
        shutil.rmtree(tmp, ignore_errors=True)


def selftest(pid, root, jobs=None):
    vs = load_variants(pid)
    if not vs:
        return None
    jobs = jobs or min(16, os.cpu_count() or 4, len(vs))
    with ProcessPoolExecutor(max_workers=jobs) as ex:
        res = list(ex.map(run_variant, [(pid, root, v) for v in vs]))
    byname = {v["name"]: v for v in vs}
    rep = {"mutants": 0, "mutants_fired": 0, "twins": 0, "twins_silent": 0,
           "inapplicable": [], "misses": [], "limits": [], "details": []}
    for (name, kind, verdict, rules, msg) in res:
        v = byname[name]
        if verdict == "inapplicable":
            rep["inapplicable"].append("%s (%s)" % (name, msg))
            continue
        want = v.get("expect") or []
        if kind == "mutant":
            rep["mutants"] += 1
            # exit 2 (anchor vanished / unsupported construct) is a refusal
            # to pass, i.e. the change does not go unnoticed
            ok = (verdict == "fired" and (not want or set(want) & set(rules))) \
                or (verdict == "analysis-error" and v.get("allow_exit2"))
            if ok:
                rep["mutants_fired"] += 1
            elif verdict == "silent" and v.get("known_limitation") and \
                    not v.get("other_checks"):
                # a documented miss (DESIGN.md section 10): reported as a
                # limit of the checker on every thorough run
                rep["limits"].append("mutant %s: NOT REPORTED (%s)" % (
                    name, v["known_limitation"][:160]))
            elif verdict == "silent" and v.get("known_limitation") and \
                    v.get("other_checks"):
                # seeded for this property, but the code it changes is
                # decided (and the change reported) by another property
                rep["limits"].append("mutant %s: silent here, reported by "
                                     "%s" % (name, ", ".join(
                                         v["other_checks"])))
                rep["mutants"] -= 1
            else:
                rep["misses"].append("mutant %s: %s %s (expected %s) %s" % (
                    name, verdict, rules, want or "any rule", msg[-300:]))
        else:
            rep["twins"] += 1
            if verdict == "silent":
                rep["twins_silent"] += 1
            elif verdict == "analysis-error" and v.get("known_limitation"):
                rep.setdefault("limits", []).append(
                    "twin %s: exit 2 (%s)" % (name, v["known_limitation"]))
            else:
                rep["misses"].append("twin %s: %s %s %s" % (
                    name, verdict, rules, msg[-300:]))
        rep["details"].append({"variant": name, "kind": kind,
                               "verdict": verdict, "rules": rules})
    return rep


if __name__ == "__main__":
    import sys
    root = os.environ.get("DALINT_REPO", "/repo")
    bad = 0
    for pid in sys.argv[1:]:
        rep = selftest(pid, root)
        if rep is None:
            print(pid, "no variants")
            continue
        print("%s: %d/%d mutants reported, %d/%d twins silent, %d "
              "inapplicable" % (pid, rep["mutants_fired"], rep["mutants"],
                                rep["twins_silent"], rep["twins"],
                                len(rep["inapplicable"])))
        for d in rep["details"]:
            print("   %-7s %-55s %-9s %s" % (d["kind"], d["variant"],
                                             d["verdict"], d["rules"]))
        for m in rep["inapplicable"]:
            print("   INAPPLICABLE", m)
        for m in rep["misses"]:
            print("   MISS", m)
        for m in rep.get("limits", []):
            print("   LIMIT", m)
        bad += len(rep["misses"]) + len(rep["inapplicable"])
    sys.exit(1 if bad else 0)
