"""Function normalisation before the pattern rules look at it:

  1. helper inlining (inline.Inliner) - "extract helper" refactorings vanish;
  2. copy propagation of pure local aliases - `dt = r.raw_value.as_integer;
     if dt == 254` is read as `if r.raw_value.as_integer == 254`.

An alias is a local name assigned `a = <pure expr>` (names,
attribute chains, constants, arithmetic / comparison / subscripts of such;
no call, await or yield) that is valid at each use: the assignment is the
only definition reaching the use and every name read by the right-hand side
has the same reaching definitions at the use as at the assignment (checked
on the CFG, so loop-carried uses are left alone).  Valid uses are replaced by
the expression; the assignment itself stays (it is harmless).  The result is
only used for analysis, never executed."""
import ast
import copy

from .cfg import CFG, suspension_may_raise, reaching_defs, defs_reaching, \
    _walk_no_nested
from .inline import Inliner, InlineBlock, acopy


PURE_CALLS = {"len", "int", "bool", "abs", "min", "max", "isinstance",
              "issubclass", "hasattr", "callable"}


def _selects_callable(e):
    return isinstance(e, ast.IfExp) and isinstance(
        e.body, (ast.Name, ast.Attribute)) and isinstance(
            e.orelse, (ast.Name, ast.Attribute))


def _pure(e, allow_call=False):
    if allow_call and isinstance(e, ast.Call) and not e.keywords and all(
            _pure(a) for a in e.args) and isinstance(
                e.func, (ast.Name, ast.Attribute)):
        return True
    for n in ast.walk(e):
        if isinstance(n, ast.IfExp) and not _selects_callable(n):
            return False       # a computed value keeps its name
        if isinstance(n, (ast.Await, ast.Yield, ast.YieldFrom, ast.Lambda,
                          ast.NamedExpr, ast.ListComp, ast.SetComp,
                          ast.DictComp, ast.GeneratorExp, ast.Starred)):
            return False
        if isinstance(n, ast.Call):
            if not (isinstance(n.func, ast.Name) and n.func.id in PURE_CALLS):
                return False
        if isinstance(n, (ast.List, ast.Dict, ast.Set)):
            return False      # fresh mutable objects are not aliases
    return True


def _names(e):
    return {n.id for n in ast.walk(e) if isinstance(n, ast.Name)}


def _comprehension_bound(root, name):
    """ids of the Name nodes under `root` that refer to a comprehension's
    own variable `name` (a comprehension has a scope of its own: its target
    shadows a local of the same name)."""
    out = set()
    for c in ast.walk(root):
        if not isinstance(c, (ast.ListComp, ast.SetComp, ast.DictComp,
                              ast.GeneratorExp)):
            continue
        binds = False
        for k, g in enumerate(c.generators):
            if any(isinstance(x, ast.Name) and x.id == name
                   for x in ast.walk(g.target)):
                binds = True
                first = k
                break
        if not binds:
            continue
        # everything in the comprehension except the iterables evaluated
        # before the binding generator
        parts = [c.elt] if hasattr(c, "elt") else [c.key, c.value]
        for k, g in enumerate(c.generators):
            if k > first:
                parts.append(g.iter)
            if k >= first:
                parts += list(g.ifs) + [g.target]
        for p_ in parts:
            for x in ast.walk(p_):
                if isinstance(x, ast.Name) and x.id == name:
                    out.add(id(x))
    return out


class _Subst(ast.NodeTransformer):
    def __init__(self, repl):
        self.repl = repl          # id(Name node) -> replacement expr
        self.count = 0

    def visit_Name(self, n):
        v = self.repl.get(id(n))
        if v is not None:
            self.count += 1
            return ast.copy_location(acopy(v), n)
        return n


def propagate_aliases(fn, rounds=4, only_params=False):
    """Returns a copy of fn with valid alias uses replaced."""
    fn = acopy(fn)
    for _ in range(rounds):
        if not _one_round(fn, only_params):
            break
    ast.fix_missing_locations(fn)
    return fn


def _one_round(fn, only_params=False):
    cfg = CFG(fn, may_raise=suspension_may_raise, name=fn.name)
    params = [a.arg for a in fn.args.args + fn.args.kwonlyargs]
    rd = reaching_defs(cfg, params)
    # candidate aliases: one Store in the whole function, by a plain Assign
    stores = {}
    for n in cfg.reachable:
        if n.ast is None:
            continue
        tgts = []
        if n.kind == "stmt":
            tgts = [n.ast]
        elif n.kind == "for":
            tgts = [n.ast.target]
        elif n.kind == "with_enter":
            tgts = [i.optional_vars for i in n.ast.items if i.optional_vars]
        elif n.kind == "except" and n.ast.name:
            stores.setdefault(n.ast.name, []).append(None)
        for t in tgts:
            for x in _walk_no_nested(t):
                if isinstance(x, ast.Name) and isinstance(
                        x.ctx, (ast.Store, ast.Del)):
                    stores.setdefault(x.id, []).append(n)
    cands = []
    for name, ns in stores.items():
        if any(x is None for x in ns) or name in params:
            continue
        for n in ns:
            a = n.ast
            if only_params and not getattr(a, "_inline_param", False) and \
                    not (isinstance(a, ast.Assign) and _flag_expr(a.value)):
                continue
            single_use_param = getattr(a, "_inline_param", False) and \
                _count_loads(fn, name) == 1
            if n.kind == "stmt" and isinstance(a, ast.Assign) and len(
                    a.targets) == 1 and isinstance(
                        a.targets[0], ast.Name) and \
                    _pure(a.value, allow_call=single_use_param) and \
                    name not in _names(a.value):
                if isinstance(a.value, ast.Constant) and not getattr(
                        a, "_inline_param", False):
                    continue          # named constants keep their name
                if len(ns) > 1 and isinstance(a.value, (
                        ast.Constant, ast.Name)):
                    continue          # a variable, not a name for a value
                cands.append((name, n))
    repl = {}
    for name, dn in cands:
        rhs_names = _names(dn.ast.value)
        at_def = {x: defs_reaching(rd, dn, x) for x in rhs_names}
        for u in cfg.reachable:
            if u is dn or u.ast is None:
                continue
            shadow = _comprehension_bound(_use_root(u), name)
            uses = [x for x in _walk_no_nested(_use_root(u))
                    if isinstance(x, ast.Name) and x.id == name and
                    isinstance(x.ctx, ast.Load) and id(x) not in shadow]
            if not uses:
                continue
            if defs_reaching(rd, u, name) != {dn.id}:
                continue
            if any(defs_reaching(rd, u, x) != at_def[x] for x in rhs_names):
                continue
            for x in uses:
                repl[id(x)] = dn.ast.value
    if not repl:
        return False
    sub = _Subst(repl)
    sub.visit(fn)
    return sub.count > 0


def _flag_expr(e):
    """`not x`, `x and not y`, `x is None`: a truth value computed from
    names alone; a local bound to one is a name for the test."""
    if isinstance(e, ast.UnaryOp) and isinstance(e.op, ast.Not):
        return _flag_expr(e.operand) or isinstance(e.operand, ast.Name)
    if isinstance(e, ast.BoolOp):
        return all(_flag_expr(v) or isinstance(v, ast.Name)
                   for v in e.values)
    if isinstance(e, ast.Compare) and len(e.ops) == 1 and isinstance(
            e.ops[0], (ast.Is, ast.IsNot)):
        return isinstance(e.left, ast.Name) and isinstance(
            e.comparators[0], ast.Constant)
    if isinstance(e, ast.Compare) and len(e.ops) == 1 and isinstance(
            e.ops[0], (ast.In, ast.NotIn, ast.Eq, ast.NotEq)):
        return all(isinstance(x, (ast.Name, ast.Constant))
                   for x in [e.left] + e.comparators)
    if isinstance(e, ast.Call) and isinstance(e.func, ast.Name) and \
            e.func.id == "isinstance" and len(e.args) == 2 and \
            not e.keywords and isinstance(e.args[0], ast.Name):
        return all(isinstance(x, (ast.Name, ast.Attribute, ast.Tuple,
                                  ast.Load))
                   for x in ast.walk(e.args[1]))
    return False


def _count_loads(fn, name):
    return sum(1 for n in ast.walk(fn) if isinstance(n, ast.Name) and
               n.id == name and isinstance(n.ctx, ast.Load))


def _use_root(node):
    a = node.ast
    if node.kind == "for":
        return a.iter
    if node.kind == "with_enter":
        return ast.Tuple([i.context_expr for i in a.items], ast.Load())
    if node.kind == "except":
        return a.type if a.type is not None else ast.Constant(None)
    return a


class _ReplaceNode(ast.NodeTransformer):
    def __init__(self, target, new):
        self.target, self.new = target, new

    def visit(self, n):
        if n is self.target:
            return self.new
        return super().visit(n)


def _first_ifexp(stmt, values=False):
    """First conditional expression of a simple statement that chooses
    between two names / attributes (a class or function to call); with
    values=True also the whole right-hand side of an assignment / return
    (`x = a if c else b`)."""
    if values and isinstance(stmt, (ast.Assign, ast.Return)) and isinstance(
            stmt.value, ast.IfExp):
        return stmt.value
    if values and isinstance(stmt, (ast.Assign, ast.Return)) and isinstance(
            stmt.value, ast.Call) and isinstance(
                stmt.value.func, ast.Name) and stmt.value.func.id in (
                    "list", "tuple", "set", "frozenset", "int", "bool",
                    "bytes", "str", "sorted") and len(
                        stmt.value.args) == 1 and not stmt.value.keywords \
            and isinstance(stmt.value.args[0], ast.IfExp):
        # x = list(a if c else b): the test is evaluated first either way
        return stmt.value.args[0]
    if values == "deep" and isinstance(stmt, (ast.Assign, ast.Return,
                                              ast.Expr)) and \
            stmt.value is not None:
        # a conditional expression anywhere in a value whose evaluation has
        # no effect other than, possibly, its outermost call: the test can
        # be taken first
        v = stmt.value
        inner_calls = [n for n in ast.walk(v) if isinstance(n, ast.Call)
                       and n is not v]
        if all(isinstance(c.func, ast.Name) and c.func.id in (
                "isinstance", "hasattr", "int", "len", "bool", "getattr",
                "type", "str") for c in inner_calls) and not any(
                    isinstance(n, (ast.Await, ast.Yield, ast.YieldFrom,
                                   ast.NamedExpr, ast.Lambda, ast.ListComp,
                                   ast.SetComp, ast.DictComp,
                                   ast.GeneratorExp)) for n in ast.walk(v)):
            for n in ast.walk(v):
                if isinstance(n, ast.IfExp):
                    return n
    for n in _walk_no_nested(stmt):
        if isinstance(n, ast.IfExp) and isinstance(
                n.body, (ast.Name, ast.Attribute)) and isinstance(
                    n.orelse, (ast.Name, ast.Attribute)):
            return n
    return None


def lift_nested_values(fn):
    """`k = (a.x if p(a) else a, b.y if q(b) else b)` as the if/else
    statements that choose among the four plain tuples (copy of fn)."""
    fn = _lift(acopy(fn), values="deep")
    ast.fix_missing_locations(fn)
    return fn


def _lift(fn, values=False):
    def split(s):
        e = _first_ifexp(s, values)
        if e is None:
            return s
        # two copies of s with e replaced by either branch
        idx = [i for i, n in enumerate(ast.walk(s)) if n is e][0]
        outs = []
        for br in ("body", "orelse"):
            c = acopy(s)
            ce = list(ast.walk(c))[idx]
            c = _ReplaceNode(ce, getattr(ce, br)).visit(c)
            outs.append(split(c))
        test = acopy(e.test)
        return ast.copy_location(ast.If(test, [outs[0]], [outs[1]]), s)

    def block(stmts):
        out = []
        for s in stmts:
            for fld in ("body", "orelse", "finalbody"):
                if isinstance(getattr(s, fld, None), list) and not isinstance(
                        s, (ast.FunctionDef, ast.AsyncFunctionDef,
                            ast.ClassDef)):
                    setattr(s, fld, block(getattr(s, fld)))
            if isinstance(s, ast.Try):
                for h in s.handlers:
                    h.body = block(h.body)
            if isinstance(s, (ast.Expr, ast.Assign, ast.Return)):
                s = split(s)
            out.append(s)
        return out
    fn.body = block(fn.body)
    return fn


def hoist_suspensions(fn):
    """`x = (yield E).attr` -> `__y1 = yield E; x = __y1.attr` (also await):
    a suspension that is not the whole right-hand side / statement is given
    its own statement, provided everything evaluated before it is pure."""
    counter = [0]

    def whole(s):
        v = None
        if isinstance(s, ast.Expr):
            v = s.value
        elif isinstance(s, (ast.Assign, ast.AnnAssign, ast.AugAssign,
                            ast.Return)):
            v = s.value
        elif isinstance(s, ast.If):
            # `if (yield X) is not None:` / `if (yield X).value:` - the
            # suspension is the first thing the test evaluates (no short
            # circuit before it)
            head = s.test
            while True:
                if isinstance(head, ast.UnaryOp) and isinstance(
                        head.op, ast.Not):
                    head = head.operand
                elif isinstance(head, ast.Compare):
                    head = head.left
                elif isinstance(head, ast.Attribute):
                    head = head.value
                elif isinstance(head, ast.Subscript):
                    head = head.value
                else:
                    break
            if isinstance(head, (ast.Yield, ast.YieldFrom, ast.Await)):
                v = ast.Tuple([s.test], ast.Load())
        return v

    def find(s):
        v = whole(s)
        if v is None:
            return None
        if isinstance(s, ast.Return) and isinstance(v, ast.Yield):
            return v            # `return (yield X)`: name the answer
        # a suspension that is evaluated only under a condition (an arm of a
        # conditional expression, a later operand of and / or, the element
        # of a comprehension) stays where it is: giving it a statement of
        # its own would make it unconditional
        conditional = set()
        for n in _walk_no_nested(v):
            arms = []
            if isinstance(n, ast.IfExp):
                arms = [n.body, n.orelse]
            elif isinstance(n, ast.BoolOp):
                arms = n.values[1:]
            elif isinstance(n, (ast.ListComp, ast.SetComp, ast.DictComp,
                                ast.GeneratorExp)):
                arms = [n]
            for a_ in arms:
                for x_ in ast.walk(a_):
                    conditional.add(id(x_))
        for n in _walk_no_nested(v):
            if n is v:
                continue
            if id(n) in conditional:
                continue
            if isinstance(n, (ast.Yield, ast.YieldFrom, ast.Await)):
                # operands of the suspension itself must not suspend
                inner = n.value
                if inner is not None and any(isinstance(x, (
                        ast.Yield, ast.YieldFrom, ast.Await))
                        for x in ast.walk(inner)):
                    continue
                return n
        return None

    def susp(e):
        return any(isinstance(x, (ast.Yield, ast.YieldFrom, ast.Await))
                   for x in _walk_no_nested(e))

    def block(stmts):
        out = []
        for s in stmts:
            # `if A and B: S` (no else) is `if A: if B: S`; done when a
            # later operand suspends, so that it can be given a name
            while isinstance(s, ast.If) and not s.orelse and isinstance(
                    s.test, ast.BoolOp) and isinstance(
                        s.test.op, ast.And) and any(
                            susp(v_) for v_ in s.test.values[1:]):
                first, rest = s.test.values[0], s.test.values[1:]
                inner = ast.copy_location(ast.If(
                    rest[0] if len(rest) == 1 else ast.BoolOp(ast.And(),
                                                               rest),
                    s.body, []), s)
                s = ast.copy_location(ast.If(first, [inner], []), s)
            for fld in ("body", "orelse", "finalbody"):
                if isinstance(getattr(s, fld, None), list) and not isinstance(
                        s, (ast.FunctionDef, ast.AsyncFunctionDef,
                            ast.ClassDef)):
                    setattr(s, fld, block(getattr(s, fld)))
            if isinstance(s, ast.Try):
                for h in s.handlers:
                    h.body = block(h.body)
            while True:
                n = find(s)
                if n is None:
                    break
                counter[0] += 1
                tmp = "__susp_%d" % counter[0]
                pre = ast.copy_location(ast.Assign(
                    [ast.Name(tmp, ast.Store())], n), s)
                s = _ReplaceNode(n, ast.copy_location(
                    ast.Name(tmp, ast.Load()), n)).visit(s)
                out.append(pre)
            out.append(s)
        return out
    fn.body = block(fn.body)
    return fn


def desugar_conditional_with(fn):
    """`async with (nullcontext() if C else LOCK): BODY` (also through a
    local name) is the conditional acquire/release it abbreviates:
        if not C: await LOCK.acquire()
        try: BODY
        finally:
            if not C: LOCK.release()"""
    defs = {}
    for n in ast.walk(fn):
        if isinstance(n, ast.Assign) and len(n.targets) == 1 and isinstance(
                n.targets[0], ast.Name):
            defs.setdefault(n.targets[0].id, []).append(n.value)

    def is_null(e):
        return isinstance(e, ast.Call) and not e.args and not e.keywords \
            and ast.unparse(e.func).split(".")[-1] == "nullcontext"

    # `if c: x = A` / `else: x = B` is the conditional expression
    chosen = {}
    for n in ast.walk(fn):
        if isinstance(n, ast.If) and len(n.body) == 1 and len(
                n.orelse) == 1 and all(
                    isinstance(b, ast.Assign) and len(b.targets) == 1 and
                    isinstance(b.targets[0], ast.Name)
                    for b in (n.body[0], n.orelse[0])) and \
                n.body[0].targets[0].id == n.orelse[0].targets[0].id:
            chosen.setdefault(n.body[0].targets[0].id, []).append(
                ast.IfExp(n.test, n.body[0].value, n.orelse[0].value))

    def split(e):
        if isinstance(e, ast.Name) and len(defs.get(e.id, [])) == 1:
            e = defs[e.id][0]
        elif isinstance(e, ast.Name) and len(defs.get(e.id, [])) == 2 and \
                len(chosen.get(e.id, [])) == 1:
            e = chosen[e.id][0]
        if isinstance(e, ast.IfExp):
            if is_null(e.body) and not is_null(e.orelse):
                return ast.UnaryOp(ast.Not(), acopy(e.test)), e.orelse
            if is_null(e.orelse) and not is_null(e.body):
                return acopy(e.test), e.body
        return None

    def block(stmts):
        out = []
        for s_ in stmts:
            for fld in ("body", "orelse", "finalbody"):
                if isinstance(getattr(s_, fld, None), list) and \
                        not isinstance(s_, (ast.FunctionDef,
                                            ast.AsyncFunctionDef,
                                            ast.ClassDef)):
                    setattr(s_, fld, block(getattr(s_, fld)))
            if isinstance(s_, ast.Try):
                for h in s_.handlers:
                    h.body = block(h.body)
            if isinstance(s_, (ast.With, ast.AsyncWith)) and len(
                    s_.items) == 1 and s_.items[0].optional_vars is None:
                r = split(s_.items[0].context_expr)
                if r is not None:
                    cond, lock = r
                    acq = ast.Call(ast.Attribute(acopy(lock), "acquire",
                                                 ast.Load()), [], [])
                    if isinstance(s_, ast.AsyncWith):
                        acq = ast.Await(acq)
                    rel = ast.Call(ast.Attribute(acopy(lock), "release",
                                                 ast.Load()), [], [])
                    pre = ast.If(acopy(cond), [ast.Expr(acq)], [])
                    post = ast.If(acopy(cond), [ast.Expr(rel)], [])
                    tr = ast.Try(body=s_.body, handlers=[], orelse=[],
                                 finalbody=[post])
                    for x in (pre, tr):
                        ast.copy_location(x, s_)
                        ast.fix_missing_locations(x)
                    out += [pre, tr]
                    continue
            out.append(s_)
        return out
    fn.body = block(fn.body)
    return fn


def set_parents(fn):
    for n in ast.walk(fn):
        for ch in ast.iter_child_nodes(n):
            if not isinstance(ch, ast.expr_context):
                ch._parent = n
    return fn


def normalise(fn, world=None, modname=None, cls=None, primitives=(),
              inline=True, aliases=True, detable=True, lift_values=False):
    info = {"inlined": []}
    if inline and world is not None:
        inl = Inliner(world, modname, cls, primitives)
        fn = inl.expand(fn)
        info["inlined"] = inl.inlined
    parent = getattr(fn, "_parent", None)
    if world is not None and modname is not None:
        # statements that only write to a module-level logger say nothing
        # any rule asks about (assumption: logging neither raises nor
        # changes what is computed)
        fn_l = drop_logging(fn, world, modname)
        if fn_l is not fn:
            fn = fn_l
            info["inlined"] = info["inlined"] + ["<logging>"]
    if any(isinstance(n, ast.YieldFrom) and isinstance(
            n.value, ast.GeneratorExp) for n in ast.walk(fn)):
        fn = acopy(fn)
        if expand_yield_from_genexp(fn):
            ast.fix_missing_locations(fn)
            info["inlined"] = info["inlined"] + ["<yield-from-genexp>"]
    if any(isinstance(n, ast.For) and isinstance(n.iter, ast.Name)
           for n in ast.walk(fn)) and any(
               isinstance(n, ast.Assign) and isinstance(n.value, ast.List)
               for n in ast.walk(fn)):
        fn_ = acopy(fn)
        if expand_conditional_lists(fn_):
            fn = fn_
            ast.fix_missing_locations(fn)
            info["inlined"] = info["inlined"] + ["<conditional-list>"]
    if detable:
        from . import unroll as _un
        from .unroll import detable as _detable
        saved_tr = _un.TABLE_RESOLVER[0]
        if world is not None and modname is not None:
            rt, _nn = _un.class_table_resolver(world, cls if hasattr(
                cls, "lookup") else None, modname)
            _un.TABLE_RESOLVER[0] = rt
        try:
            fn2, dinfo = _detable(fn)
            if world is not None and modname is not None:
                dinfo["modconsts"] = _un.fold_module_constants(
                    fn2, world, modname)
            if hasattr(cls, "lookup"):
                dinfo["clsconsts"] = _un.fold_class_constants(fn2, cls)
        finally:
            _un.TABLE_RESOLVER[0] = saved_tr
        if any(dinfo.values()):
            fn = fn2
            info["detabled"] = dinfo
            info["inlined"] = info["inlined"] + ["<detable>"]
        if world is not None and modname is not None and any(
                isinstance(n, ast.Subscript) and isinstance(
                    n.value, (ast.Name, ast.Attribute)) and isinstance(
                        getattr(n, "_parent_call", None) or n, ast.AST)
                for n in ast.walk(fn)):
            # dispatch through a constant table in a statement of its own
            # (`yield TABLE[test](args)`) is the if-chain it abbreviates
            rt2, nn2 = _un.class_table_resolver(world, cls if hasattr(
                cls, "lookup") else None, modname)
            fn3 = acopy(fn)
            if _un.expand_table_lookups(fn3, rt2, nn2, only_stmt=True):
                fn = fn3
                ast.fix_missing_locations(fn)
                info["inlined"] = info["inlined"] + ["<table-dispatch>"]
    if any(isinstance(n, (ast.With, ast.AsyncWith)) for n in ast.walk(fn)) \
            and "nullcontext" in ast.unparse(fn):
        if not info["inlined"]:
            fn = acopy(fn)
        fn = desugar_conditional_with(fn)
        ast.fix_missing_locations(fn)
    if aliases == "params":
        if any(isinstance(n, (ast.Yield, ast.YieldFrom, ast.Await))
               for n in ast.walk(fn)):
            fn = hoist_suspensions(acopy(fn))
            ast.fix_missing_locations(fn)
        fn = propagate_aliases(fn, only_params=True)
        ast.fix_missing_locations(fn)
    elif aliases:
        if fn is not None and "inlined" in info and not info["inlined"]:
            fn = acopy(fn)
        fn = hoist_suspensions(fn)
        ast.fix_missing_locations(fn)
        if any(isinstance(n, ast.Attribute) and n.attr == "append"
               for n in ast.walk(fn)):
            merge_appends(fn)
        fn = propagate_aliases(fn)
        fn = _lift(fn)
        ast.fix_missing_locations(fn)
    if lift_values:
        if not info["inlined"] and not aliases:
            fn = acopy(fn)
        fn = _lift(fn, values=True)
        ast.fix_missing_locations(fn)
    if aliases is True and detable:
        # forms that only appear once aliases are written out
        # (`max(ends)` with ends = (a, b))
        from .unroll import fold_constants
        fold_constants(fn)
    if any(isinstance(n, ast.Call) and any(
            isinstance(a, ast.Starred) and isinstance(
                a.value, (ast.Tuple, ast.List)) for a in n.args)
            for n in ast.walk(fn)):
        # f(*(a, b)) left behind by an unrolled loop over rows: f(a, b)
        if not info["inlined"] and not aliases and not lift_values:
            fn = acopy(fn)
        for n in ast.walk(fn):
            if isinstance(n, ast.Call) and any(
                    isinstance(a, ast.Starred) and isinstance(
                        a.value, (ast.Tuple, ast.List)) and not any(
                            isinstance(e, ast.Starred)
                            for e in a.value.elts) for a in n.args):
                args = []
                for a in n.args:
                    if isinstance(a, ast.Starred) and isinstance(
                            a.value, (ast.Tuple, ast.List)) and not any(
                                isinstance(e, ast.Starred)
                                for e in a.value.elts):
                        args += list(a.value.elts)
                    else:
                        args.append(a)
                n.args = args
        ast.fix_missing_locations(fn)
    set_parents(fn)
    fn._parent = parent
    fn._norm_info = info
    return fn


def canon_class_refs(fn, world, modname, prefix="dali.frame."):
    """References to classes of one module (`ForwardFrame` imported by
    name, `frame.ForwardFrame`, `dali.frame.ForwardFrame`) written in the one
    fully qualified spelling, so that rules comparing tests by their text
    see the class and not the import style.  In place; returns the count."""
    cnt = [0]

    class R(ast.NodeTransformer):
        def visit_Attribute(self, n):
            if isinstance(n.ctx, ast.Load):
                k = None
                try:
                    k = world.resolve_class(modname, n)
                except Exception:
                    k = None
                if k is not None and k.qname.startswith(prefix):
                    if ast.unparse(n) != k.qname:
                        cnt[0] += 1
                        return ast.copy_location(ast.parse(
                            k.qname, mode="eval").body, n)
                    return n
            return self.generic_visit(n)

        def visit_Name(self, n):
            if isinstance(n.ctx, ast.Load):
                k = None
                try:
                    k = world.resolve_class(modname, n)
                except Exception:
                    k = None
                if k is not None and k.qname.startswith(prefix):
                    cnt[0] += 1
                    return ast.copy_location(ast.parse(
                        k.qname, mode="eval").body, n)
            return n
    stored = {n.id for n in ast.walk(fn) if isinstance(n, ast.Name) and
              isinstance(n.ctx, (ast.Store, ast.Del))} | {
        a.arg for a in fn.args.args + fn.args.kwonlyargs}

    class Guard(R):
        def visit_Name(self, n):
            if n.id in stored:
                return n
            return R.visit_Name(self, n)
    Guard().visit(fn)
    if cnt[0]:
        ast.fix_missing_locations(fn)
    return cnt[0]


def expand_map_loops(fn):
    """`for x in map(F, it): BODY` (one iterable, F a plain name or
    attribute chain) is `for x__src in it: x = F(x__src); BODY` - map() is
    lazy, so F is applied exactly where the loop asks for the next element.
    In place; returns the number of loops rewritten."""
    n_done = 0
    for n in ast.walk(fn):
        if not (isinstance(n, (ast.For, ast.AsyncFor)) and isinstance(
                n.iter, ast.Call) and isinstance(n.iter.func, ast.Name) and
                n.iter.func.id == "map" and len(n.iter.args) == 2 and
                not n.iter.keywords and isinstance(n.target, ast.Name)):
            continue
        f_, it = n.iter.args
        if not isinstance(f_, (ast.Name, ast.Attribute)):
            continue
        src = n.target.id + "__src"
        n.body = [ast.copy_location(ast.Assign(
            [ast.Name(n.target.id, ast.Store())],
            ast.Call(f_, [ast.Name(src, ast.Load())], [])), n)] + n.body
        n.target = ast.Name(src, ast.Store())
        n.iter = it
        n_done += 1
    if n_done:
        ast.fix_missing_locations(fn)
    return n_done


def split_conditional_augassign(fn):
    """`x OP= (A if t else B)` is `if t: x OP= A  else: x OP= B`, and an
    augmented assignment by the operation's neutral element (`>>= 0`,
    `<<= 0`, `+= 0`, `-= 0`, `|= 0`, `^= 0`, `*= 1`, `//= 1`) is nothing.
    Returns the number of statements rewritten (fn changed in place)."""
    n_done = [0]

    def neutral(s):
        return isinstance(s, ast.AugAssign) and isinstance(
            s.value, ast.Constant) and type(s.value.value) is int and (
                (s.value.value == 0 and isinstance(s.op, (
                    ast.RShift, ast.LShift, ast.Add, ast.Sub, ast.BitOr,
                    ast.BitXor))) or
                (s.value.value == 1 and isinstance(s.op, (
                    ast.Mult, ast.FloorDiv))))

    def block(stmts):
        out = []
        for s in stmts:
            for fld in ("body", "orelse", "finalbody"):
                sub = getattr(s, fld, None)
                if isinstance(sub, list) and sub and isinstance(
                        sub[0], ast.stmt) and not isinstance(
                            s, (ast.FunctionDef, ast.AsyncFunctionDef,
                                ast.ClassDef)):
                    setattr(s, fld, block(sub) or (
                        [ast.Pass()] if fld == "body" else []))
            if isinstance(s, ast.Try):
                for h in s.handlers:
                    h.body = block(h.body) or [ast.Pass()]
            if isinstance(s, ast.AugAssign) and isinstance(
                    s.value, ast.IfExp) and _pure(s.value.test):
                a, b = acopy(s), acopy(s)
                a.value, b.value = s.value.body, s.value.orelse
                body = [] if neutral(a) else [a]
                orelse = [] if neutral(b) else [b]
                n_done[0] += 1
                if body or orelse:
                    test = s.value.test
                    if not body:
                        test = ast.UnaryOp(ast.Not(), test)
                        body, orelse = orelse, []
                    out.append(ast.copy_location(
                        ast.If(test, body, orelse), s))
                continue
            out.append(s)
        return out
    fn.body = block(fn.body)
    if n_done[0]:
        ast.fix_missing_locations(fn)
    return n_done[0]


def enumerate_index_to_zip(fn):
    """`for i, v in enumerate(B): a = A[i]; REST` (i not used in REST, not
    stored to) pairs element i of A with element i of B, which is what
    `for a, v in zip(A, B): REST` says.  The two differ only when B is the
    longer one (IndexError instead of stopping); the rules that read the
    pairing check the length guard separately.  Returns the number of loops
    rewritten (fn is changed in place: pass a copy)."""
    n_done = 0
    for n in ast.walk(fn):
        if not (isinstance(n, ast.For) and isinstance(n.iter, ast.Call) and
                isinstance(n.iter.func, ast.Name) and
                n.iter.func.id == "enumerate" and len(n.iter.args) == 1 and
                not n.iter.keywords and isinstance(n.target, ast.Tuple) and
                len(n.target.elts) == 2 and all(
                    isinstance(x, ast.Name) for x in n.target.elts) and
                n.body):
            continue
        i, v = n.target.elts[0].id, n.target.elts[1]
        s0 = n.body[0]
        if not (isinstance(s0, ast.Assign) and len(s0.targets) == 1 and
                isinstance(s0.targets[0], ast.Name) and isinstance(
                    s0.value, ast.Subscript) and isinstance(
                        s0.value.slice, ast.Name) and
                s0.value.slice.id == i and _pure(s0.value.value)):
            continue
        if any(isinstance(x, ast.Name) and x.id == i
               for st in n.body[1:] for x in ast.walk(st)):
            continue
        n.target = ast.Tuple([s0.targets[0], v], ast.Store())
        n.iter = ast.Call(ast.Name("zip", ast.Load()),
                          [s0.value.value, n.iter.args[0]], [])
        n.body = n.body[1:] or [ast.Pass()]
        n_done += 1
    if n_done:
        ast.fix_missing_locations(fn)
    return n_done


def loop_to_tailcall(fn):
    """A function whose body is `while True: BODY` (no break / continue),
    where no local other than the parameters is carried from one iteration
    to the next, is the tail-recursive function it abbreviates:

        def f(a, b):                      def f(a, b):
            while True:                       BODY'   # every path that fell
                BODY                                  # off the end of BODY
                                                      # now ends in
                                              return f(a', b')

    (`yield from` / `await` for generators / coroutines); an assignment to a
    parameter that is the last statement of its path is folded into the call
    argument.  Returns the rewritten copy, or None if the side conditions do
    not hold (the caller then analyses the function as written)."""
    body = [s for s in fn.body if not (isinstance(s, ast.Expr) and isinstance(
        s.value, ast.Constant) and isinstance(s.value.value, str))]
    if len(body) != 1 or not isinstance(body[0], ast.While):
        return None
    w = body[0]
    if w.orelse or not (isinstance(w.test, ast.Constant) and w.test.value
                        in (True, 1)):
        return None
    from .unroll import _has
    if _has(w.body, (ast.Break, ast.Continue)):
        return None
    a = fn.args
    if a.vararg or a.kwarg or a.posonlyargs or a.kwonlyargs:
        return None
    params = [x.arg for x in a.args]
    # one iteration on its own: no use of a non-parameter local may see the
    # "value from before the iteration"
    one = acopy(fn)
    one.body = [acopy(s) for s in w.body] + [ast.Return(None)]
    ast.fix_missing_locations(one)
    locals_ = set()
    for n in ast.walk(one):
        if isinstance(n, ast.Name) and isinstance(n.ctx, ast.Store):
            locals_.add(n.id)
    locals_ -= set(params)
    cfg = CFG(one, may_raise=suspension_may_raise, name=fn.name)
    rd = reaching_defs(cfg, params + sorted(locals_))
    for u in cfg.reachable:
        if u.ast is None:
            continue
        for x in _walk_no_nested(_use_root(u)):
            if isinstance(x, ast.Name) and isinstance(x.ctx, ast.Load) and \
                    x.id in locals_ and cfg.entry.id in defs_reaching(
                        rd, u, x.id):
                return None
    is_async = isinstance(fn, ast.AsyncFunctionDef)
    is_gen = any(isinstance(n, (ast.Yield, ast.YieldFrom))
                 for n in ast.walk(fn))
    if is_async and is_gen:
        return None

    def call(env):
        c = ast.Call(ast.Name(fn.name, ast.Load()),
                     [acopy(env.get(p, ast.Name(p, ast.Load())))
                      for p in params], [])
        if is_gen:
            c = ast.YieldFrom(c)
        elif is_async:
            c = ast.Await(c)
        return ast.Return(c)

    def tail(stmts, env):
        stmts = list(stmts)
        if stmts:
            last = stmts[-1]
            if isinstance(last, (ast.Return, ast.Raise)):
                return stmts
            if isinstance(last, ast.If):
                new = ast.copy_location(ast.If(
                    last.test, tail(last.body, env),
                    tail(last.orelse, env)), last)
                return stmts[:-1] + [new]
            if isinstance(last, ast.Assign) and len(last.targets) == 1 and \
                    isinstance(last.targets[0], ast.Name) and \
                    last.targets[0].id in params and \
                    last.targets[0].id not in env and not any(
                        isinstance(n, ast.Name) and n.id in env
                        for n in ast.walk(last.value)) and not any(
                            isinstance(n, (ast.Yield, ast.YieldFrom,
                                           ast.Await, ast.Call))
                            for n in ast.walk(last.value)):
                env2 = dict(env)
                env2[last.targets[0].id] = last.value
                return tail(stmts[:-1], env2) if stmts[:-1] else [
                    ast.copy_location(call(env2), last)]
        r = call(env)
        if stmts:
            ast.copy_location(r, stmts[-1])
        else:
            ast.copy_location(r, w)
        return stmts + [r]
    out = acopy(fn)
    out.body = tail([acopy(s) for s in w.body], {})
    ast.fix_missing_locations(out)
    return out


def expand_yield_from_genexp(fn):
    """`yield from (E for x in IT if C)` as the loop it abbreviates,
    `for x in IT: if C: yield E` (a generator expression ignores what is
    sent to it, like the expression statement `yield E`); a conditional
    element `A if c else B` becomes if/else around two yields.  Returns the
    number of rewrites (fn modified in place)."""
    cnt = [0]

    def yields(elt, at):
        if isinstance(elt, ast.IfExp):
            return [ast.copy_location(ast.If(elt.test, yields(elt.body, at),
                                             yields(elt.orelse, at)), at)]
        return [ast.copy_location(ast.Expr(ast.Yield(elt)), at)]

    def block(stmts):
        out = []
        for s in stmts:
            for fld in ("body", "orelse", "finalbody"):
                sub = getattr(s, fld, None)
                if isinstance(sub, list) and sub and isinstance(
                        sub[0], ast.stmt) and not isinstance(
                            s, (ast.FunctionDef, ast.AsyncFunctionDef,
                                ast.ClassDef)):
                    setattr(s, fld, block(sub))
            if isinstance(s, ast.Try):
                for h in s.handlers:
                    h.body = block(h.body)
            if isinstance(s, ast.Expr) and isinstance(
                    s.value, ast.YieldFrom) and isinstance(
                        s.value.value, ast.GeneratorExp) and not any(
                            g.is_async for g in s.value.value.generators):
                ge = s.value.value
                body = yields(ge.elt, s)
                for g in reversed(ge.generators):
                    for c in reversed(g.ifs):
                        body = [ast.copy_location(ast.If(c, body, []), s)]
                    body = [ast.copy_location(ast.For(g.target, g.iter, body,
                                                      []), s)]
                for x in body:
                    ast.fix_missing_locations(x)
                out += body
                cnt[0] += 1
                continue
            out.append(s)
        return out
    fn.body = block(fn.body)
    return cnt[0]


def expand_conditional_lists(fn):
    """A list built by a display and (conditional) appends, then iterated
    once:

        L = [a]; if c: L.append(b); for x in L: BODY
    is written as
        x = a; BODY; if c: x = b; BODY

    Only when L is used for nothing else, the conditions are plain names /
    attribute chains that nothing in between or in BODY assigns, and BODY has
    no break / continue / else of its own.  (The elements are then evaluated
    where they are used rather than where the list is built; the rules that
    rely on this form look at what is sent and when, not at which point a
    constructor would refuse its argument.)  Returns the number of rewrites;
    fn is modified in place."""
    cnt = [0]

    def loads(node, name):
        return [n for n in ast.walk(node) if isinstance(n, ast.Name)
                and n.id == name]

    def appended(s, L):
        """[(cond or None, element)] when s only appends to L."""
        if isinstance(s, ast.Expr) and isinstance(s.value, ast.Call) and \
                isinstance(s.value.func, ast.Attribute) and isinstance(
                    s.value.func.value, ast.Name) and \
                s.value.func.value.id == L and not s.value.keywords:
            c = s.value
            if c.func.attr == "append" and len(c.args) == 1:
                return [(None, c.args[0])]
            if c.func.attr == "extend" and len(c.args) == 1 and isinstance(
                    c.args[0], (ast.List, ast.Tuple)):
                return [(None, e) for e in c.args[0].elts]
            return None
        if isinstance(s, ast.AugAssign) and isinstance(
                s.op, ast.Add) and isinstance(s.target, ast.Name) and \
                s.target.id == L and isinstance(s.value, (ast.List,
                                                          ast.Tuple)):
            return [(None, e) for e in s.value.elts]
        if isinstance(s, ast.If) and not s.orelse and _is_chain(s.test):
            out = []
            for b in s.body:
                r = appended(b, L)
                if r is None or any(c is not None for c, _ in r):
                    return None
                out += [(s.test, e) for _, e in r]
            return out
        return None

    def _is_chain(e):
        while isinstance(e, ast.Attribute):
            e = e.value
        return isinstance(e, ast.Name)

    def has_own_jump(body):
        def walk(stmts, depth):
            for s in stmts:
                if isinstance(s, (ast.Break, ast.Continue)) and depth == 0:
                    return True
                if isinstance(s, (ast.FunctionDef, ast.AsyncFunctionDef,
                                  ast.ClassDef)):
                    continue
                d2 = depth + (1 if isinstance(s, (ast.For, ast.While,
                                                  ast.AsyncFor)) else 0)
                for fld in ("body", "orelse", "finalbody"):
                    sub = getattr(s, fld, None)
                    if isinstance(sub, list) and sub and isinstance(
                            sub[0], ast.stmt) and walk(
                                sub, d2 if fld == "body" else depth):
                        return True
                for h in getattr(s, "handlers", []):
                    if walk(h.body, depth):
                        return True
            return False
        return walk(body, 0)

    def stored(stmts):
        out = set()
        for s in stmts:
            for n in ast.walk(s):
                if isinstance(n, ast.Name) and isinstance(
                        n.ctx, (ast.Store, ast.Del)):
                    out.add(n.id)
                elif isinstance(n, ast.Attribute) and isinstance(
                        n.ctx, (ast.Store, ast.Del)):
                    out.add(ast.unparse(n))
        return out

    def try_at(stmts, i):
        s0 = stmts[i]
        if not (isinstance(s0, ast.Assign) and len(s0.targets) == 1 and
                isinstance(s0.targets[0], ast.Name) and isinstance(
                    s0.value, ast.List) and not any(
                        isinstance(e, ast.Starred) for e in s0.value.elts)):
            return None
        L = s0.targets[0].id
        elems = [(None, e) for e in s0.value.elts]
        between = []
        j = i + 1
        while j < len(stmts):
            s = stmts[j]
            if isinstance(s, ast.For) and isinstance(
                    s.iter, ast.Name) and s.iter.id == L:
                break
            r = appended(s, L)
            if r is not None:
                elems += r
            elif loads(s, L):
                return None
            else:
                between.append(s)
            j += 1
        else:
            return None
        loop = stmts[j]
        if loop.orelse or has_own_jump(loop.body) or not isinstance(
                loop.target, ast.Name):
            return None
        # L used nowhere else
        total = len(loads(fn, L))
        here = sum(len(loads(s, L)) for s in stmts[i:j]) + 1
        if total != here or loads(ast.Module(loop.body, []), L):
            return None
        changed = stored(between) | stored(loop.body)
        for c, e in elems:
            names = {n.id for n in ast.walk(e) if isinstance(n, ast.Name)}
            if c is not None:
                names |= {ast.unparse(c)} | {
                    n.id for n in ast.walk(c) if isinstance(n, ast.Name)}
            if names & changed:
                return None
        out = list(between)
        x = loop.target.id
        uses = [n for b in loop.body for n in ast.walk(b)
                if isinstance(n, ast.Name) and n.id == x]
        once = len(uses) == 1 and isinstance(uses[0].ctx, ast.Load) and \
            not any(isinstance(n, (ast.For, ast.While, ast.Lambda,
                                   ast.ListComp, ast.GeneratorExp))
                    for b in loop.body for n in ast.walk(b))

        class _SubX(ast.NodeTransformer):
            def __init__(self, e):
                self.e = e

            def visit_Name(self, n):
                if n.id == x and isinstance(n.ctx, ast.Load):
                    return acopy(self.e)
                return n
        for c, e in elems:
            if once:
                blk = [_SubX(e).visit(acopy(b)) for b in loop.body]
            else:
                blk = [ast.copy_location(ast.Assign(
                    [ast.Name(x, ast.Store())], acopy(e)), loop)]
                blk += [acopy(b) for b in loop.body]
            if c is not None:
                blk = [ast.copy_location(ast.If(acopy(c), blk, []), loop)]
            out += blk
        for x in out:
            ast.fix_missing_locations(x)
        return j, out

    def block(stmts):
        stmts = list(stmts)
        i = 0
        while i < len(stmts):
            r = try_at(stmts, i)
            if r is not None:
                j, new = r
                stmts[i:j + 1] = new
                cnt[0] += 1
                continue
            i += 1
        for s in stmts:
            if isinstance(s, (ast.FunctionDef, ast.AsyncFunctionDef,
                              ast.ClassDef)):
                continue
            for fld in ("body", "orelse", "finalbody"):
                sub = getattr(s, fld, None)
                if isinstance(sub, list) and sub and isinstance(
                        sub[0], ast.stmt):
                    setattr(s, fld, block(sub))
            if isinstance(s, ast.Try):
                for h in s.handlers:
                    h.body = block(h.body)
        return stmts
    fn.body = block(fn.body)
    return cnt[0]


def merge_appends(fn):
    """`L = []; ...; L.append(a); ...; L.append(b); USE(L)` (one block,
    nothing else touching L in between, a / b names bound once or constants)
    is `L = [a, b]; USE(L)`; when USE is the unpacking `x, y = L` and L is
    read nowhere else the elements are bound directly (`x = a; y = b`).
    Returns the number of lists merged; fn is modified in place."""
    cnt = [0]
    stores = {}
    for n in ast.walk(fn):
        if isinstance(n, ast.Name) and isinstance(n.ctx, (ast.Store, ast.Del)):
            stores[n.id] = stores.get(n.id, 0) + 1
    for a in fn.args.args + fn.args.kwonlyargs:
        stores[a.arg] = stores.get(a.arg, 0) + 1

    def mentions(s, L):
        return any(isinstance(n, ast.Name) and n.id == L for n in ast.walk(s))

    def simple(e):
        if isinstance(e, ast.Constant):
            return True
        if isinstance(e, ast.Name):
            return stores.get(e.id, 0) <= 1
        if isinstance(e, ast.Attribute):
            # an attribute chain of a name bound once
            r_ = e
            while isinstance(r_, ast.Attribute):
                r_ = r_.value
            return isinstance(r_, ast.Name) and stores.get(r_.id, 0) <= 1
        return False

    def try_at(stmts, i):
        s0 = stmts[i]
        if not (isinstance(s0, ast.Assign) and len(s0.targets) == 1 and
                isinstance(s0.targets[0], ast.Name) and isinstance(
                    s0.value, ast.List) and all(simple(e)
                                                for e in s0.value.elts)):
            return False
        L = s0.targets[0].id
        if stores.get(L, 0) != 1:
            return False
        elts = list(s0.value.elts)
        drop = [i]
        j = i + 1
        while j < len(stmts):
            s = stmts[j]
            if isinstance(s, ast.Expr) and isinstance(
                    s.value, ast.Call) and isinstance(
                        s.value.func, ast.Attribute) and \
                    s.value.func.attr == "append" and isinstance(
                        s.value.func.value, ast.Name) and \
                    s.value.func.value.id == L and len(
                        s.value.args) == 1 and not s.value.keywords and \
                    simple(s.value.args[0]):
                elts.append(s.value.args[0])
                drop.append(j)
            elif mentions(s, L):
                break
            j += 1
        if len(drop) < 2:
            return False
        use = stmts[j] if j < len(stmts) else None
        total = sum(1 for n in ast.walk(fn) if isinstance(n, ast.Name)
                    and n.id == L)
        new = None
        if use is not None and isinstance(use, ast.Assign) and len(
                use.targets) == 1 and isinstance(
                    use.targets[0], (ast.Tuple, ast.List)) and isinstance(
                        use.value, ast.Name) and use.value.id == L and len(
                            use.targets[0].elts) == len(elts) and all(
                                isinstance(t, ast.Name)
                                for t in use.targets[0].elts) and \
                total == len(drop) + 1:
            new = [ast.copy_location(ast.Assign([t], acopy(e)), use)
                   for t, e in zip(use.targets[0].elts, elts)]
            drop.append(j)
        else:
            new = [ast.copy_location(ast.Assign(
                [ast.Name(L, ast.Store())],
                ast.List([acopy(e) for e in elts], ast.Load())), s0)]
        for x in new:
            ast.fix_missing_locations(x)
        at = min(j, len(stmts))
        out = []
        for k, s in enumerate(stmts):
            if k == at:
                out += new
            if k not in drop:
                out.append(s)
        if at >= len(stmts):
            out += new
        stmts[:] = out
        cnt[0] += 1
        return True

    def block(stmts):
        i = 0
        while i < len(stmts):
            if not try_at(stmts, i):
                i += 1
        for s in stmts:
            if isinstance(s, (ast.FunctionDef, ast.AsyncFunctionDef,
                              ast.ClassDef)):
                continue
            for fld in ("body", "orelse", "finalbody"):
                sub = getattr(s, fld, None)
                if isinstance(sub, list) and sub and isinstance(
                        sub[0], ast.stmt):
                    block(sub)
            if isinstance(s, ast.Try):
                for h in s.handlers:
                    block(h.body)
    block(fn.body)
    return cnt[0]


def inline_test_locals(fn):
    """`t = E` directly followed by `if t:` (or `if not t:`), t read nowhere
    else and E free of calls other than isinstance / hasattr: the test reads
    E itself.  Returns a copy (or fn when nothing applies)."""
    loads = {}
    for n in ast.walk(fn):
        if isinstance(n, ast.Name) and isinstance(n.ctx, ast.Load):
            loads[n.id] = loads.get(n.id, 0) + 1
    stores = {}
    for n in ast.walk(fn):
        if isinstance(n, ast.Name) and isinstance(n.ctx, (ast.Store,
                                                          ast.Del)):
            stores[n.id] = stores.get(n.id, 0) + 1

    def simple(e):
        return not any(
            isinstance(n, (ast.Await, ast.Yield, ast.YieldFrom,
                           ast.NamedExpr, ast.Lambda)) or (
                isinstance(n, ast.Call) and not (
                    isinstance(n.func, ast.Name) and n.func.id in (
                        "isinstance", "hasattr", "len", "bool")))
            for n in ast.walk(e))
    out = acopy(fn)
    changed = [0]

    def block(stmts):
        i = 0
        while i + 1 < len(stmts):
            a, b = stmts[i], stmts[i + 1]
            if isinstance(a, ast.Assign) and len(a.targets) == 1 and \
                    isinstance(a.targets[0], ast.Name) and isinstance(
                        b, ast.If) and simple(a.value):
                t = a.targets[0].id
                test = b.test
                inner = test.operand if isinstance(
                    test, ast.UnaryOp) and isinstance(
                        test.op, ast.Not) else test
                if isinstance(inner, ast.Name) and inner.id == t and \
                        loads.get(t, 0) == 1 and stores.get(t, 0) == 1:
                    new = acopy(a.value)
                    if inner is test:
                        b.test = new
                    else:
                        test.operand = new
                    del stmts[i]
                    changed[0] += 1
                    continue
            i += 1
        for s_ in stmts:
            if isinstance(s_, (ast.FunctionDef, ast.AsyncFunctionDef,
                               ast.ClassDef)):
                continue
            for fld in ("body", "orelse", "finalbody"):
                sub = getattr(s_, fld, None)
                if isinstance(sub, list) and sub and isinstance(
                        sub[0], ast.stmt):
                    block(sub)
            if isinstance(s_, ast.Try):
                for h in s_.handlers:
                    block(h.body)
    block(out.body)
    if not changed[0]:
        return fn
    ast.fix_missing_locations(out)
    set_parents(out)
    out._parent = getattr(fn, "_parent", None)
    return out


def drop_dead_stores(fn):
    """Assignments of a side-effect-free value to a local that is never read
    (the parameter bindings an inlined call leaves behind once their uses
    have been written out) are removed, in place.  Returns the count."""
    loads = set()
    for n in ast.walk(fn):
        if isinstance(n, ast.Name) and isinstance(n.ctx, (ast.Load,
                                                          ast.Del)):
            loads.add(n.id)
    cnt = [0]

    def plain(e):
        return not any(isinstance(n, (ast.Call, ast.Await, ast.Yield,
                                      ast.YieldFrom, ast.NamedExpr,
                                      ast.Subscript))
                       for n in ast.walk(e))

    def block(stmts):
        out = []
        for s in stmts:
            if isinstance(s, ast.Assign) and len(s.targets) == 1 and \
                    isinstance(s.targets[0], ast.Name) and \
                    s.targets[0].id not in loads and plain(s.value):
                cnt[0] += 1
                continue
            if isinstance(s, InlineBlock):
                s.body = block(s.body) or [ast.Pass()]
            elif not isinstance(s, (ast.FunctionDef, ast.AsyncFunctionDef,
                                    ast.ClassDef)):
                for fld in ("body", "orelse", "finalbody"):
                    sub = getattr(s, fld, None)
                    if isinstance(sub, list) and sub and isinstance(
                            sub[0], ast.stmt):
                        r = block(sub)
                        setattr(s, fld, r if (r or fld != "body")
                                else [ast.Pass()])
                if isinstance(s, ast.Try):
                    for h in s.handlers:
                        h.body = block(h.body) or [ast.Pass()]
            out.append(s)
        return out
    fn.body = block(fn.body) or [ast.Pass()]
    return cnt[0]


def expand_listcomps_with_calls(fn):
    """`X = f([H(a, v) for v in IT])` where H is a method of self / cls: the
    comprehension is written as the loop it abbreviates,
        __lc_N = []; for v in IT: __e_N = H(a, v); __lc_N.append(__e_N)
    so that the helper can be inlined like any other call statement.
    Returns a copy (fn itself when nothing applies)."""
    cnt = [0]

    def wanted(lc):
        if not isinstance(lc, ast.ListComp) or len(lc.generators) != 1:
            return False
        g = lc.generators[0]
        if g.is_async:
            return False
        return any(isinstance(c, ast.Call) and isinstance(
            c.func, ast.Attribute) and isinstance(
                c.func.value, ast.Name) and c.func.value.id in (
                    "self", "cls") for c in ast.walk(lc.elt))

    def rewrite(s):
        lcs = [n for n in ast.walk(s) if wanted(n)]
        if len(lcs) != 1 or not isinstance(s, (ast.Assign, ast.Return,
                                               ast.Expr)):
            return None
        lc = lcs[0]
        cnt[0] += 1
        k = cnt[0]
        acc, tmp = "__lc_%d" % k, "__e_%d" % k
        g = lc.generators[0]
        body = [ast.Assign([ast.Name(tmp, ast.Store())], lc.elt),
                ast.Expr(ast.Call(ast.Attribute(ast.Name(acc, ast.Load()),
                                                "append", ast.Load()),
                                  [ast.Name(tmp, ast.Load())], []))]
        for c in reversed(g.ifs):
            body = [ast.If(c, body, [])]
        loop = ast.For(g.target, g.iter, body, [])

        class R(ast.NodeTransformer):
            def visit_ListComp(self, n):
                if n is lc:
                    return ast.Name(acc, ast.Load())
                return self.generic_visit(n)
        out = [ast.Assign([ast.Name(acc, ast.Store())], ast.List([],
                                                                 ast.Load())),
               loop, R().visit(s)]
        for x in out:
            ast.copy_location(x, s)
            ast.fix_missing_locations(x)
        return out

    def block(stmts):
        out = []
        for s in stmts:
            if isinstance(s, (ast.FunctionDef, ast.AsyncFunctionDef,
                              ast.ClassDef)):
                out.append(s)
                continue
            for fld in ("body", "orelse", "finalbody"):
                sub = getattr(s, fld, None)
                if isinstance(sub, list) and sub and isinstance(
                        sub[0], ast.stmt):
                    setattr(s, fld, block(sub))
            if isinstance(s, ast.Try):
                for h in s.handlers:
                    h.body = block(h.body)
            r = rewrite(s)
            out += r if r is not None else [s]
        return out
    f2 = acopy(fn)
    f2.body = block(f2.body)
    if not cnt[0]:
        return fn
    ast.fix_missing_locations(f2)
    return f2


_LOG_METHODS = ("debug", "info", "warning", "warn", "error", "exception",
                "critical", "log", "trace")


def drop_logging(fn, world, modname):
    """Copy of fn without the statements that only write to a logger: a
    call of a logging method on a module-level name bound to
    logging.getLogger(...) (or on the logging module), whose arguments call
    nothing.  A handler name that was only read by such a statement is
    dropped too.  A statement whose f-string carries a format spec stays: it
    is formatted eagerly and can raise.  (Assumption, stated by the checks
    that use this: writing a log record neither raises nor changes what the
    function computes; %-style arguments are formatted by the logger, which
    swallows formatting errors.)"""
    from .inline import acopy

    def is_logger(e):
        if isinstance(e, ast.Name):
            if e.id == "logging":
                return True
            b = world.lookup(modname, e.id) if world is not None else None
            v = getattr(b, "value", None) if b is not None and getattr(
                b, "kind", None) == "expr" else None
            return isinstance(v, ast.Call) and ast.unparse(
                v.func).endswith("getLogger")
        return False

    def is_log_stmt(s):
        if not (isinstance(s, ast.Expr) and isinstance(s.value, ast.Call)):
            return False
        c = s.value
        if not (isinstance(c.func, ast.Attribute) and c.func.attr in
                _LOG_METHODS and is_logger(c.func.value)):
            return False
        for a in list(c.args) + [k.value for k in c.keywords]:
            if any(isinstance(n, (ast.Call, ast.Await, ast.Yield,
                                  ast.YieldFrom, ast.NamedExpr)) and not (
                       isinstance(n, ast.Call) and isinstance(
                           n.func, ast.Name) and n.func.id == "len" and
                       len(n.args) == 1 and isinstance(
                           n.args[0], (ast.Name, ast.Attribute)))
                   for n in ast.walk(a)):
                return False
            # an f-string is formatted before the call: a format spec
            # (`{x:02x}`) raises for a value of the wrong type, and that is
            # the function's behaviour, not the logger's
            if any(isinstance(n, ast.FormattedValue) and
                   n.format_spec is not None for n in ast.walk(a)):
                return False
        return True
    out = acopy(fn)
    changed = [False]

    class D(ast.NodeTransformer):
        def generic_visit(self, node):
            super().generic_visit(node)
            for fld in ("body", "orelse", "finalbody"):
                b = getattr(node, fld, None)
                if isinstance(b, list) and b and isinstance(b[0], ast.stmt):
                    nb = [s for s in b if not is_log_stmt(s)]
                    if len(nb) != len(b):
                        changed[0] = True
                        if not nb and fld == "body":
                            nb = [ast.copy_location(ast.Pass(), b[0])]
                        setattr(node, fld, nb)
            if isinstance(node, ast.ExceptHandler) and node.name and \
                    not any(isinstance(n, ast.Name) and n.id == node.name
                            for s in node.body for n in ast.walk(s)):
                node.name = None
            return node
    out = D().visit(out)
    if not changed[0]:
        return fn
    ast.fix_missing_locations(out)
    return out


def scalarise_byte_buffers(fn):
    """A local bound once to `bytearray(E)` / `list(E)` with E an
    `x.to_bytes(N, order)` of constant N, used only as `B[k]` (constant k in
    range(N), read or written) and as the whole argument of
    `int.from_bytes(B, ...)` / `bytes(B)`, is N scalars:

        B = bytearray(E)      ->  B_0, ..., B_{N-1} = E
        B[k]                  ->  B_k
        int.from_bytes(B, o)  ->  int.from_bytes((B_0, ..., B_{N-1}), o)

    (What a bytearray refuses on an element store - a non-int, a value
    outside 0..255 - the reassembly refuses on the scalars too, later; the
    rules that use this compare lanes, not the point of the TypeError.)
    Returns fn unchanged when no such local exists."""
    from .inline import acopy
    cands = {}
    for n in _walk_no_nested(fn):
        if isinstance(n, ast.Assign) and len(n.targets) == 1 and isinstance(
                n.targets[0], ast.Name) and isinstance(n.value, ast.Call) \
                and isinstance(n.value.func, ast.Name) and \
                n.value.func.id in ("bytearray", "list") and len(
                    n.value.args) == 1 and not n.value.keywords:
            e = n.value.args[0]
            if isinstance(e, ast.Call) and isinstance(
                    e.func, ast.Attribute) and e.func.attr == "to_bytes" \
                    and e.args and isinstance(e.args[0], ast.Constant) and \
                    type(e.args[0].value) is int and \
                    1 <= e.args[0].value <= 8:
                cands.setdefault(n.targets[0].id, []).append(n)
    parent = {}
    for x in ast.walk(fn):
        for ch in ast.iter_child_nodes(x):
            parent[id(ch)] = x
    good = {}
    for b, defs in cands.items():
        if len(defs) != 1:
            continue
        N = defs[0].value.args[0].args[0].value
        ok = True
        for n in _walk_no_nested(fn):
            if not (isinstance(n, ast.Name) and n.id == b):
                continue
            if n is defs[0].targets[0]:
                continue
            up = parent.get(id(n))
            if isinstance(up, ast.Subscript) and up.value is n and \
                    isinstance(up.slice, ast.Constant) and type(
                        up.slice.value) is int and 0 <= up.slice.value < N:
                continue
            if isinstance(up, ast.Call) and up.args and up.args[0] is n and \
                    ast.unparse(up.func) in ("int.from_bytes", "bytes"):
                continue
            ok = False
        if ok:
            good[b] = (defs[0], N)
    if not good:
        return fn
    out = acopy(fn)

    class R(ast.NodeTransformer):
        def visit_Assign(self, n):
            if len(n.targets) == 1 and isinstance(
                    n.targets[0], ast.Name) and n.targets[0].id in good \
                    and isinstance(n.value, ast.Call) and isinstance(
                        n.value.func, ast.Name) and n.value.func.id in (
                            "bytearray", "list"):
                b = n.targets[0].id
                N = good[b][1]
                return ast.copy_location(ast.Assign([ast.Tuple([
                    ast.Name("%s_%d" % (b, k), ast.Store())
                    for k in range(N)], ast.Store())],
                    n.value.args[0]), n)
            return self.generic_visit(n)

        def visit_Subscript(self, n):
            if isinstance(n.value, ast.Name) and n.value.id in good and \
                    isinstance(n.slice, ast.Constant):
                return ast.copy_location(ast.Name("%s_%d" % (
                    n.value.id, n.slice.value), n.ctx), n)
            return self.generic_visit(n)

        def visit_Call(self, n):
            self.generic_visit(n)
            if n.args and isinstance(n.args[0], ast.Name) and \
                    n.args[0].id in good and ast.unparse(n.func) in (
                        "int.from_bytes", "bytes"):
                b = n.args[0].id
                n.args[0] = ast.copy_location(ast.Tuple([
                    ast.Name("%s_%d" % (b, k), ast.Load())
                    for k in range(good[b][1])], ast.Load()), n.args[0])
            return n
    out = R().visit(out)
    ast.fix_missing_locations(out)
    return out


def desugar_translating_with(fn, world, modname):
    """`with K(): BODY` where K is a class of the module whose __enter__
    only returns and whose __exit__ has the form

        if exc_type is not None and issubclass(exc_type, E): raise X
        return False

    is `try: BODY / except E: raise X` (an exception-translating context
    manager).  Anything else about K leaves the statement alone.  Returns fn
    or a rewritten copy."""
    from .inline import acopy

    def translating(call):
        if not (isinstance(call, ast.Call) and not call.args and
                not call.keywords and isinstance(call.func, ast.Name)):
            return None
        b = world.lookup(modname, call.func.id) if world is not None \
            else None
        k = getattr(b, "value", None) if b is not None and getattr(
            b, "kind", None) == "class" else None
        if k is None or "__exit__" not in k.methods or \
                "__enter__" not in k.methods:
            return None
        if any(isinstance(x, type(k)) for x in k.mro[1:]
               if hasattr(x, "methods") and (
                   "__exit__" in x.methods or "__enter__" in x.methods)):
            return None
        en = [s_ for s_ in k.methods["__enter__"][1].body if not (
            isinstance(s_, ast.Expr) and isinstance(s_.value, ast.Constant))]
        if not (len(en) == 1 and isinstance(en[0], ast.Return)) and en:
            return None
        ex = k.methods["__exit__"][1]
        ps = [a.arg for a in ex.args.args]
        if len(ps) != 4:
            return None
        body = [s_ for s_ in ex.body if not (
            isinstance(s_, ast.Expr) and isinstance(s_.value, ast.Constant))]
        if not (1 <= len(body) <= 2 and isinstance(body[0], ast.If) and
                not body[0].orelse and len(body[0].body) == 1 and
                isinstance(body[0].body[0], ast.Raise)):
            return None
        if len(body) == 2 and not (isinstance(body[1], ast.Return) and (
                body[1].value is None or (isinstance(
                    body[1].value, ast.Constant) and not
                    body[1].value.value))):
            return None
        t = body[0].test
        conj = t.values if isinstance(t, ast.BoolOp) and isinstance(
            t.op, ast.And) else [t]
        E = None
        for c_ in conj:
            if ast.unparse(c_) in ("%s is not None" % ps[1], ps[1]):
                continue
            if isinstance(c_, ast.Call) and ast.unparse(c_.func) == \
                    "issubclass" and len(c_.args) == 2 and ast.unparse(
                        c_.args[0]) == ps[1] and E is None:
                E = c_.args[1]
                continue
            return None
        if E is None:
            return None
        r = body[0].body[0]
        if any(isinstance(x, ast.Name) and x.id in ps
               for x in ast.walk(r)):
            return None
        return E, r
    found = [n for n in _walk_no_nested(fn) if isinstance(n, ast.With) and
             len(n.items) == 1 and n.items[0].optional_vars is None and
             translating(n.items[0].context_expr) is not None]
    if not found:
        return fn
    out = acopy(fn)

    class R(ast.NodeTransformer):
        def visit_With(self, n):
            self.generic_visit(n)
            if len(n.items) == 1 and n.items[0].optional_vars is None:
                tr = translating(n.items[0].context_expr)
                if tr is not None:
                    E, r = tr
                    t = ast.Try(body=n.body, handlers=[ast.ExceptHandler(
                        type=acopy(E), name=None, body=[acopy(r)])],
                        orelse=[], finalbody=[])
                    return ast.copy_location(t, n)
            return n
    out = R().visit(out)
    ast.fix_missing_locations(out)
    return out


def pull_tests_through_conversion(fn, world, modname):
    """A parameter converted in place at the top of a function,

        if isinstance(P, T): P = K(P)
        REST

    (no else, K a class of the repository, P not assigned again) makes every
    later type test of P speak about the converted object.  The tests are
    pulled back to the caller's object and the conversion statement dropped:

        isinstance(P', C)  ==  isinstance(P, T) or isinstance(P, C)       K <= C
        isinstance(P', C)  ==  not isinstance(P, T) and isinstance(P, C)  otherwise

    What REST then calls P is `the destination, converted if it was a T`;
    rules that compare which object a command is addressed to by the
    parameter's name read it as that.  Only a leading statement of exactly
    this form is taken; fn is returned unchanged otherwise."""
    from .inline import acopy
    body = list(fn.body)
    i = 0
    while i < len(body) and isinstance(body[i], ast.Expr) and isinstance(
            body[i].value, ast.Constant):
        i += 1
    if i >= len(body) - 1:
        return fn
    st = body[i]
    params = {a.arg for a in fn.args.args}
    if not (isinstance(st, ast.If) and not st.orelse and len(st.body) == 1
            and isinstance(st.body[0], ast.Assign) and len(
                st.body[0].targets) == 1 and isinstance(
                    st.body[0].targets[0], ast.Name)):
        return fn
    P = st.body[0].targets[0].id
    v = st.body[0].value
    t = st.test
    if P not in params or not (
            isinstance(t, ast.Call) and ast.unparse(t.func) == "isinstance"
            and len(t.args) == 2 and ast.unparse(t.args[0]) == P and
            isinstance(t.args[1], ast.Name)):
        return fn
    if not (isinstance(v, ast.Call) and len(v.args) == 1 and not v.keywords
            and ast.unparse(v.args[0]) == P):
        return fn
    K = world.resolve_class(modname, v.func) if world is not None else None
    if K is None or K.has_ext_base(t.args[1].id):
        return fn
    rest = body[i + 1:]
    if any(isinstance(n, ast.Name) and n.id == P and isinstance(
            n.ctx, (ast.Store, ast.Del)) for s_ in rest
            for n in ast.walk(s_)):
        return fn
    T = t.args[1]
    bad = [False]

    def is_T():
        return ast.Call(ast.Name("isinstance", ast.Load()),
                        [ast.Name(P, ast.Load()), acopy(T)], [])

    class Pull(ast.NodeTransformer):
        def visit_Call(self, n):
            self.generic_visit(n)
            if ast.unparse(n.func) == "isinstance" and len(n.args) == 2 \
                    and isinstance(n.args[0], ast.Name) and \
                    n.args[0].id == P:
                cs = n.args[1].elts if isinstance(
                    n.args[1], ast.Tuple) else [n.args[1]]
                parts = []
                for c in cs:
                    if ast.unparse(c) == ast.unparse(T):
                        parts.append(ast.Constant(False))
                        continue
                    k2 = world.resolve_class(modname, c)
                    if k2 is None:
                        bad[0] = True
                        return n
                    one = ast.Call(ast.Name("isinstance", ast.Load()),
                                   [ast.Name(P, ast.Load()), acopy(c)], [])
                    if k2 in K.mro:
                        parts.append(ast.BoolOp(ast.Or(), [one, is_T()]))
                    else:
                        parts.append(ast.BoolOp(ast.And(), [
                            ast.UnaryOp(ast.Not(), is_T()), one]))
                parts = [p_ for p_ in parts if not (isinstance(
                    p_, ast.Constant) and p_.value is False)] or [
                        ast.Constant(False)]
                r = parts[0] if len(parts) == 1 else ast.BoolOp(ast.Or(),
                                                                parts)
                return ast.copy_location(r, n)
            return n
    new_rest = [Pull().visit(acopy(s_)) for s_ in rest]
    if bad[0]:
        return fn
    out = acopy(fn)
    out.body = body[:i] + new_rest
    ast.fix_missing_locations(out)
    return out


def unbound_counted_poll_loops(fn, minimum):
    """`for _ in range(N): BODY` followed directly by a `raise`, with the
    loop variable unused, no break / else and a constant N >= minimum, is
    read as `while True: BODY`: every run of the counted loop is a prefix of
    a run of the unbounded one, and the raise behind it is reached only when
    the unbounded loop would make more than N passes - which the rule that
    asks for this (a bound on the passes below `minimum`) excludes.  Returns
    fn or a rewritten copy."""
    from .inline import acopy

    def hit(stmts, k):
        s_ = stmts[k]
        if not (isinstance(s_, ast.For) and not s_.orelse and isinstance(
                s_.target, ast.Name) and isinstance(s_.iter, ast.Call) and
                ast.unparse(s_.iter.func) == "range" and len(
                    s_.iter.args) == 1 and isinstance(
                        s_.iter.args[0], ast.Constant) and type(
                            s_.iter.args[0].value) is int and
                s_.iter.args[0].value >= minimum):
            return False
        if k + 1 >= len(stmts) or not isinstance(stmts[k + 1], ast.Raise):
            return False
        v = s_.target.id
        for b in s_.body:
            for n in ast.walk(b):
                if isinstance(n, ast.Name) and n.id == v:
                    return False
                if isinstance(n, ast.Break):
                    return False
        return True
    found = [False]

    def block(stmts):
        out = []
        k = 0
        while k < len(stmts):
            s_ = stmts[k]
            if hit(stmts, k):
                found[0] = True
                out.append(ast.copy_location(ast.While(
                    ast.Constant(True), s_.body, []), s_))
                k += 2
                continue
            for fld in ("body", "orelse", "finalbody"):
                b = getattr(s_, fld, None)
                if isinstance(b, list) and b and isinstance(b[0], ast.stmt) \
                        and not isinstance(s_, (ast.FunctionDef,
                                                ast.AsyncFunctionDef,
                                                ast.ClassDef)):
                    setattr(s_, fld, block(b))
            out.append(s_)
            k += 1
        return out
    out = acopy(fn)
    out.body = block(out.body)
    if not found[0]:
        return fn
    ast.fix_missing_locations(out)
    return out


def thread_none_sentinel(fn, world, modname):
    """A conditional read with a None sentinel, followed at once by the test
    of the sentinel,

        X = (yield from G(...)) if C else None
        if X is not None: A else: B

    is `if C: X = yield from G(...); A / else: X = None; B` when G (a
    generator function of the module) can only return something that is not
    None: every `return` in it has a value other than the constant None and
    its body cannot fall off the end.  The `is None` form with the arms
    swapped is read too.  Returns fn or a rewritten copy."""
    from .inline import acopy

    def never_none(call):
        if not (isinstance(call, ast.Call) and isinstance(
                call.func, ast.Name)):
            return False
        b = world.lookup(modname, call.func.id) if world is not None \
            else None
        g = getattr(b, "value", None) if b is not None and getattr(
            b, "kind", None) == "func" else None
        if not isinstance(g, ast.FunctionDef):
            return False
        rets = [n for n in _walk_no_nested(g) if isinstance(n, ast.Return)]
        if not rets or any(r.value is None or (isinstance(
                r.value, ast.Constant) and r.value.value is None)
                for r in rets):
            return False
        return isinstance(g.body[-1], (ast.Return, ast.Raise))
    found = [False]

    def block(stmts):
        out = []
        k = 0
        while k < len(stmts):
            s_ = stmts[k]
            nx = stmts[k + 1] if k + 1 < len(stmts) else None
            if isinstance(s_, ast.Assign) and len(s_.targets) == 1 and \
                    isinstance(s_.targets[0], ast.Name) and isinstance(
                        s_.value, ast.IfExp) and isinstance(
                            s_.value.body, ast.YieldFrom) and isinstance(
                                s_.value.orelse, ast.Constant) and \
                    s_.value.orelse.value is None and never_none(
                        s_.value.body.value) and isinstance(nx, ast.If) and \
                    isinstance(nx.test, ast.Compare) and len(
                        nx.test.ops) == 1 and isinstance(
                            nx.test.ops[0], (ast.Is, ast.IsNot)) and \
                    isinstance(nx.test.left, ast.Name) and \
                    nx.test.left.id == s_.targets[0].id and isinstance(
                        nx.test.comparators[0], ast.Constant) and \
                    nx.test.comparators[0].value is None:
                X = s_.targets[0].id
                pos, neg = (nx.body, nx.orelse) if isinstance(
                    nx.test.ops[0], ast.IsNot) else (nx.orelse, nx.body)
                read = ast.copy_location(ast.Assign(
                    [ast.Name(X, ast.Store())], s_.value.body), s_)
                none = ast.copy_location(ast.Assign(
                    [ast.Name(X, ast.Store())], ast.Constant(None)), s_)
                out.append(ast.copy_location(ast.If(
                    s_.value.test, [read] + block(list(pos)),
                    [none] + block(list(neg))), s_))
                found[0] = True
                k += 2
                continue
            for fld in ("body", "orelse", "finalbody"):
                b = getattr(s_, fld, None)
                if isinstance(b, list) and b and isinstance(b[0], ast.stmt) \
                        and not isinstance(s_, (ast.FunctionDef,
                                                ast.AsyncFunctionDef,
                                                ast.ClassDef)):
                    setattr(s_, fld, block(b))
            out.append(s_)
            k += 1
        return out
    out = acopy(fn)
    out.body = block(out.body)
    if not found[0]:
        return fn
    ast.fix_missing_locations(out)
    return out


def scalarise_namedtuples(fn, world, modname):
    """A local bound once to a NamedTuple of the module - `w = K(e1, ..)`, or
    `w = K.m(args)` with m a classmethod whose body is `return cls(*E)` /
    `return cls(e1, ..)` - and used only through its fields is those field
    expressions: `w.f_i` becomes e_i (E[i] in the starred form, the
    method's parameters replaced by the arguments).  Returns fn or a
    rewritten copy."""
    from .inline import acopy
    if world is None:
        return fn
    cands = {}
    for n in _walk_no_nested(fn):
        if isinstance(n, ast.Assign) and len(n.targets) == 1 and isinstance(
                n.targets[0], ast.Name) and isinstance(n.value, ast.Call):
            cands.setdefault(n.targets[0].id, []).append(n)
    repl = {}
    for w, defs in cands.items():
        if len(defs) != 1:
            continue
        call = defs[0].value
        if call.keywords or any(isinstance(a, ast.Starred)
                                for a in call.args):
            continue
        f = call.func
        K, meth = None, None
        try:
            if isinstance(f, ast.Attribute):
                K = world.resolve_class(modname, f.value)
                meth = f.attr
                if K is None:
                    K = world.resolve_class(modname, f)
                    meth = None
            else:
                K = world.resolve_class(modname, f)
        except Exception:
            K = None
        if K is None or not K.has_ext_base("NamedTuple"):
            continue
        fields = [st.target.id for st in K.node.body if isinstance(
            st, ast.AnnAssign) and isinstance(st.target, ast.Name)]
        exprs = None
        if meth is None:
            if len(call.args) == len(fields):
                exprs = list(call.args)
        elif meth in K.methods and K.methods[meth][0] == "classmethod":
            m = K.methods[meth][1]
            body = [s_ for s_ in m.body if not (isinstance(
                s_, ast.Expr) and isinstance(s_.value, ast.Constant))]
            ps = [a.arg for a in m.args.args]
            if len(body) == 1 and isinstance(body[0], ast.Return) and \
                    isinstance(body[0].value, ast.Call) and ast.unparse(
                        body[0].value.func) == ps[0] and len(
                            call.args) == len(ps) - 1 and \
                    not body[0].value.keywords:
                env = dict(zip(ps[1:], call.args))

                class S(ast.NodeTransformer):
                    def visit_Name(self, x):
                        if x.id in env and isinstance(x.ctx, ast.Load):
                            return acopy(env[x.id])
                        return x
                ra = body[0].value.args
                if len(ra) == 1 and isinstance(ra[0], ast.Starred):
                    base = S().visit(acopy(ra[0].value))
                    exprs = [ast.Subscript(acopy(base), ast.Constant(i),
                                           ast.Load())
                             for i in range(len(fields))]
                elif len(ra) == len(fields) and not any(
                        isinstance(a, ast.Starred) for a in ra):
                    exprs = [S().visit(acopy(a)) for a in ra]
        if exprs is None:
            continue
        # every other use of w is a field read, and what the expressions
        # mention is not re-bound in the function
        ok = True
        parent = {}
        for x in ast.walk(fn):
            for ch in ast.iter_child_nodes(x):
                parent[id(ch)] = x
        for x in _walk_no_nested(fn):
            if isinstance(x, ast.Name) and x.id == w and \
                    x is not defs[0].targets[0]:
                up = parent.get(id(x))
                if not (isinstance(up, ast.Attribute) and up.value is x and
                        up.attr in fields and isinstance(up.ctx, ast.Load)):
                    ok = False
        names = {x.id for e in exprs for x in ast.walk(e)
                 if isinstance(x, ast.Name)}
        stored = {}
        for x in _walk_no_nested(fn):
            if isinstance(x, ast.Name) and isinstance(
                    x.ctx, (ast.Store, ast.Del)):
                stored[x.id] = stored.get(x.id, 0) + 1
        if any(stored.get(nm, 0) > 0 for nm in names):
            ok = False
        if ok:
            repl[w] = (defs[0], dict(zip(fields, exprs)))
    if not repl:
        return fn
    out = acopy(fn)

    class R(ast.NodeTransformer):
        def visit_Attribute(self, n):
            if isinstance(n.value, ast.Name) and n.value.id in repl and \
                    isinstance(n.ctx, ast.Load) and \
                    n.attr in repl[n.value.id][1]:
                return ast.copy_location(acopy(repl[n.value.id][1][n.attr]),
                                         n)
            return self.generic_visit(n)

        def visit_Assign(self, n):
            if len(n.targets) == 1 and isinstance(
                    n.targets[0], ast.Name) and n.targets[0].id in repl and \
                    isinstance(n.value, ast.Call):
                # the construction itself is kept as an expression statement
                # (what it may raise - OverflowError of to_bytes - stays)
                return ast.copy_location(ast.Expr(n.value), n)
            return self.generic_visit(n)
    out = R().visit(out)
    ast.fix_missing_locations(out)
    return out


def fold_result_copies(fn):
    """`u = t` at the top level of the function body, where the local `t` is
    not mentioned after that statement and the local `u` is not mentioned
    before it: `t` is `u` under another name (the result variable of an
    inlined helper, a temporary a clean-up introduced).  `t` is renamed to
    `u` and the copy dropped, so rules that follow a flag by the role of the
    variable see one variable.  Returns the number of copies folded."""
    params = {a.arg for a in fn.args.args + fn.args.kwonlyargs +
              fn.args.posonlyargs}
    if fn.args.vararg:
        params.add(fn.args.vararg.arg)
    if fn.args.kwarg:
        params.add(fn.args.kwarg.arg)
    done = 0
    again = True
    while again:
        again = False
        for i, s in enumerate(fn.body):
            if not (isinstance(s, ast.Assign) and len(s.targets) == 1 and
                    isinstance(s.targets[0], ast.Name) and
                    isinstance(s.value, ast.Name)):
                continue
            u, t = s.targets[0].id, s.value.id
            if u == t or u in params or t in params:
                continue

            def mentions(stmts, name):
                return any(isinstance(x, ast.Name) and x.id == name or
                           isinstance(x, (ast.Global, ast.Nonlocal)) and
                           name in x.names
                           for st in stmts for x in ast.walk(st))
            if mentions(fn.body[:i], u) or not mentions(fn.body[:i], t):
                continue
            if mentions(fn.body[i + 1:], t) and mentions(fn.body[i + 1:], u):
                continue
            # (alias propagation may already have replaced the later reads
            # of u by t: then u is never mentioned again and t carries on)
            for st in fn.body[:i] + fn.body[i + 1:]:
                for x in ast.walk(st):
                    if isinstance(x, ast.Name) and x.id == t:
                        x.id = u
            del fn.body[i]
            done += 1
            again = True
            break
    return done


def fold_try_else_copy(fn):
    """`try: t = E / except X: <H> / else: u = t` with the local t read
    nowhere else: the copy cannot raise, so it may as well be the last
    statement of the try body, and `t = E; u = t` is `u = E`.  The statement
    becomes `try: u = E / except X: <H>`.  Works in place on a copy; returns
    the copy (or fn when nothing applies)."""
    loads, stores = {}, {}
    for n in ast.walk(fn):
        if isinstance(n, ast.Name):
            d = loads if isinstance(n.ctx, ast.Load) else stores
            d[n.id] = d.get(n.id, 0) + 1
    out = acopy(fn)
    changed = 0
    for n in ast.walk(out):
        if not (isinstance(n, ast.Try) and not n.finalbody and len(
                n.orelse) == 1 and n.body):
            continue
        a, b = n.body[-1], n.orelse[0]
        if isinstance(a, ast.Assign) and len(a.targets) == 1 and isinstance(
                a.targets[0], ast.Name) and isinstance(b, ast.Assign) and \
                len(b.targets) == 1 and isinstance(
                    b.targets[0], ast.Name) and isinstance(
                        b.value, ast.Name) and \
                b.value.id == a.targets[0].id:
            t = a.targets[0].id
            if loads.get(t, 0) == 1 and stores.get(t, 0) == 1:
                a.targets[0].id = b.targets[0].id
                n.orelse = []
                changed += 1
    if not changed:
        return fn
    ast.fix_missing_locations(out)
    set_parents(out)
    out._parent = getattr(fn, "_parent", None)
    return out


def reduce_thunk_calls(fn):
    """`v = lambda: E` followed, in the same block and before `v` or a free
    name of E is assigned again, by calls `v()`: each call is E (what a loop
    over a tuple of zero-argument lambdas leaves once it is unrolled - every
    command still built when its turn comes).  The lambda stores that are
    then dead, and a tuple of lambdas nobody reads, are dropped.  In place on
    a copy; returns the copy (or fn when nothing applies)."""
    out = acopy(fn)
    changed = [0]

    def thunk(s):
        return isinstance(s, ast.Assign) and len(s.targets) == 1 and \
            isinstance(s.targets[0], ast.Name) and isinstance(
                s.value, ast.Lambda) and not (
                    s.value.args.args or s.value.args.vararg or
                    s.value.args.kwarg or s.value.args.kwonlyargs or
                    s.value.args.posonlyargs)

    def stores(s):
        return {x.id for x in ast.walk(s) if isinstance(x, ast.Name) and
                isinstance(x.ctx, (ast.Store, ast.Del))}

    class R(ast.NodeTransformer):
        def __init__(self, v, body):
            self.v, self.body, self.n = v, body, 0

        def visit_Lambda(self, n):
            return n

        def visit_Call(self, n):
            self.generic_visit(n)
            if isinstance(n.func, ast.Name) and n.func.id == self.v and \
                    not n.args and not n.keywords:
                self.n += 1
                return ast.copy_location(acopy(self.body), n)
            return n

    def block(stmts):
        i = 0
        while i < len(stmts):
            s = stmts[i]
            if thunk(s):
                v = s.targets[0].id
                free = {x.id for x in ast.walk(s.value.body)
                        if isinstance(x, ast.Name)}
                j = i + 1
                while j < len(stmts):
                    t = stmts[j]
                    if isinstance(t, (ast.For, ast.While, ast.AsyncFor,
                                      ast.FunctionDef, ast.AsyncFunctionDef,
                                      ast.ClassDef)):
                        break
                    r = R(v, s.value.body)
                    stmts[j] = r.visit(t)
                    changed[0] += r.n
                    if stores(stmts[j]) & (free | {v}):
                        break
                    j += 1
            for fld in ("body", "orelse", "finalbody"):
                sub = getattr(s, fld, None)
                if isinstance(sub, list) and sub and isinstance(
                        sub[0], ast.stmt) and not isinstance(
                            s, (ast.FunctionDef, ast.AsyncFunctionDef,
                                ast.ClassDef)):
                    block(sub)
            if isinstance(s, ast.Try):
                for h in s.handlers:
                    block(h.body)
            i += 1
    block(out.body)
    if not changed[0]:
        return fn
    # lambdas (and tuples of lambdas) nobody reads any more
    loads = {x.id for x in ast.walk(out) if isinstance(x, ast.Name) and
             isinstance(x.ctx, (ast.Load, ast.Del))}

    def dead(s):
        if not (isinstance(s, ast.Assign) and len(s.targets) == 1 and
                isinstance(s.targets[0], ast.Name) and
                s.targets[0].id not in loads):
            return False
        v = s.value
        return isinstance(v, ast.Lambda) or (
            isinstance(v, (ast.Tuple, ast.List)) and v.elts and all(
                isinstance(e, ast.Lambda) for e in v.elts))

    def sweep(stmts):
        stmts[:] = [s for s in stmts if not dead(s)] or [ast.Pass()]
        for s in stmts:
            if isinstance(s, (ast.FunctionDef, ast.AsyncFunctionDef,
                              ast.ClassDef)):
                continue
            for fld in ("body", "orelse", "finalbody"):
                sub = getattr(s, fld, None)
                if isinstance(sub, list) and sub and isinstance(
                        sub[0], ast.stmt):
                    sweep(sub)
            if isinstance(s, ast.Try):
                for h in s.handlers:
                    sweep(h.body)
    sweep(out.body)
    ast.fix_missing_locations(out)
    set_parents(out)
    out._parent = getattr(fn, "_parent", None)
    return out
