"""Helpers for analysing command-sequence generators: resolved yields,
condition facts on edges, response-use discipline (R-RDISC)."""
import ast

from .core import AnalysisError, unparse, where
from .cfg import CFG, forward, suspension_may_raise, _walk_no_nested
from .front import ClassInfo


class YieldInfo:
    __slots__ = ("node", "expr", "call", "cls", "fn", "target", "is_from",
                 "name")

    def __init__(self, node, expr, call, cls, fn, target, is_from):
        self.node = node        # CFG node
        self.expr = expr        # ast.Yield / ast.YieldFrom
        self.call = call        # ast.Call or None
        self.cls = cls          # ClassInfo of the yielded command (or None)
        self.fn = fn            # (modname, FunctionDef) for `yield from f()`
        self.target = target    # Name bound to the sent-in value, or None
        self.is_from = is_from
        if cls is not None:
            self.name = cls.name
        elif fn is not None:
            self.name = fn[1].name
        elif call is not None:
            self.name = unparse(call.func)
        else:
            self.name = unparse(expr)

    def __repr__(self):
        return "<yield %s L%s>" % (self.name, self.node.lineno)

    def arg(self, i=0, kw=None):
        if self.call is None:
            return None
        if kw is not None:
            for k in self.call.keywords:
                if k.arg == kw:
                    return k.value
        if i is not None and i < len(self.call.args):
            return self.call.args[i]
        return None


def resolve_callable(world, modname, func_expr, local_aliases=None):
    """Resolve the callee of a Call to ('class', ClassInfo) /
    ('func', (mod, fn)) / ('method', (owner, kind, fn)) / None."""
    if local_aliases and isinstance(func_expr, ast.Name) \
            and func_expr.id in local_aliases:
        return local_aliases[func_expr.id]
    b = world.resolve(modname, func_expr)
    if b is None:
        return None
    if b.kind == "class":
        return ("class", b.value)
    if b.kind == "func":
        return ("func", (b.mod, b.value))
    if b.kind == "method":
        return ("method", b.value)
    return None


def yields_of(cfg, world, modname, local_aliases=None):
    """All yield points of a generator CFG, resolved.  A statement with more
    than one yield is outside the supported subset."""
    out = []
    defs = None
    for n in cfg.reachable:
        if n.ast is None or n.kind not in ("stmt", "test"):
            continue
        if n.info.get("def"):
            continue
        ys = [x for x in _walk_no_nested(n.ast)
              if isinstance(x, (ast.Yield, ast.YieldFrom))]
        if not ys:
            continue
        if len(ys) > 1:
            raise AnalysisError("more than one yield in one statement at "
                                "line %s of %s" % (n.lineno, cfg.name))
        y = ys[0]
        target = None
        a = n.ast
        if isinstance(a, ast.Assign) and len(a.targets) == 1 and isinstance(
                a.targets[0], ast.Name) and a.value is y:
            target = a.targets[0].id
        elif isinstance(a, ast.Assign) and isinstance(a.value, ast.Await):
            pass
        call = y.value if isinstance(y.value, ast.Call) else None
        if call is None and isinstance(y.value, ast.Name) and \
                getattr(cfg, "fn", None) is not None:
            # `cmd = X(...)` built once, `yield cmd` (possibly several
            # times): the command object of that one construction
            if defs is None:
                from .astq import _defs
                defs = _defs(cfg.fn)
            d = defs.get(y.value.id)
            if isinstance(d, ast.Call):
                call = d
        cls = fn = None
        if call is not None:
            r = resolve_callable(world, modname, call.func, local_aliases)
            if r is not None:
                if r[0] == "class":
                    cls = r[1]
                elif r[0] == "func":
                    fn = r[1]
                elif r[0] == "method":
                    fn = (r[1][0].mod, r[1][2])
        out.append(YieldInfo(n, y, call, cls, fn, target,
                             isinstance(y, ast.YieldFrom)))
    return out


def gen_cfg(fn, name=None):
    return CFG(fn, may_raise=suspension_may_raise, name=name)


# ---------------------------------------------------------------------------
# condition facts: on the T/F edge of an atomic test, (text, True/False)

def norm_test(expr):
    """Normalise an atomic test to (canonical text, polarity).
    `x is None` -> ('x is None', +), `x is not None` -> ('x is None', -),
    `not x` handled by the CFG; `x == c`/`x != c` likewise."""
    if isinstance(expr, ast.Compare) and len(expr.ops) == 1:
        op = expr.ops[0]
        l, r = unparse(expr.left), unparse(expr.comparators[0])
        if isinstance(op, ast.Is):
            return ("%s is %s" % (l, r), True)
        if isinstance(op, ast.IsNot):
            return ("%s is %s" % (l, r), False)
        if isinstance(op, ast.Eq):
            return ("%s == %s" % (l, r), True)
        if isinstance(op, ast.NotEq):
            return ("%s == %s" % (l, r), False)
        if isinstance(op, ast.In):
            return ("%s in %s" % (l, r), True)
        if isinstance(op, ast.NotIn):
            return ("%s in %s" % (l, r), False)
    return (unparse(expr), True)


def cond_edge_transfer(kill_on_assign=True):
    """edge_transfer adding ('cond', text, bool) facts on T/F edges."""
    def et(src, label, dst, state):
        if src.kind == "test" and label in ("T", "F"):
            text, pol = norm_test(src.ast)
            val = (label == "T") == pol
            # contradiction with an existing fact => infeasible edge
            if ("cond", text, not val) in state:
                return None
            return state | {("cond", text, val)}
        return state
    return et


def assigned_names(stmt):
    out = set()
    for n in _walk_no_nested(stmt):
        if isinstance(n, ast.Name) and isinstance(n.ctx, (ast.Store,
                                                          ast.Del)):
            out.add(n.id)
    return out


def kill_conds_on_assign(node, state):
    """Drop cond facts mentioning names (re)assigned by this node."""
    if node.ast is None or node.kind not in ("stmt", "for", "with_enter"):
        return state
    a = node.ast
    if node.kind == "for":
        names = assigned_names(a.target)
    elif node.kind == "with_enter":
        names = set()
        for it in a.items:
            if it.optional_vars is not None:
                names |= assigned_names(it.optional_vars)
    else:
        names = assigned_names(a)
        # mutation through method call on a name: x.append(...)
        for n in _walk_no_nested(a):
            if isinstance(n, ast.Call) and isinstance(n.func, ast.Attribute) \
                    and isinstance(n.func.value, ast.Name) and n.func.attr in (
                        "append", "pop", "remove", "clear", "extend", "add",
                        "update", "insert", "discard", "setdefault"):
                names.add(n.func.value.id)
    # object state (self.x) may be changed by other tasks at an await, and by
    # mutating method calls on the attribute (a sequence generator's yields
    # hand control to its single driver, which does not touch that state)
    suspended = node.kind in ("stmt", "test", "for", "with_enter") and any(
        isinstance(n, ast.Await)
        for n in _walk_no_nested(a)) if a is not None else False
    mutated_attrs = set()
    if node.kind == "stmt":
        for n in _walk_no_nested(a):
            if isinstance(n, ast.Call) and isinstance(n.func, ast.Attribute) \
                    and n.func.attr in ("append", "pop", "remove", "clear",
                                        "extend", "add", "update", "insert",
                                        "discard", "setdefault", "popleft",
                                        "put_nowait", "get_nowait", "set") \
                    and isinstance(n.func.value, ast.Attribute):
                mutated_attrs.add(unparse(n.func.value))
            if isinstance(n, (ast.Attribute, ast.Subscript)) and isinstance(
                    getattr(n, "ctx", None), (ast.Store, ast.Del)):
                base = n.value if isinstance(n, ast.Subscript) else n
                mutated_attrs.add(unparse(base))
    if not names and not suspended and not mutated_attrs:
        return state
    out = set()
    for f in state:
        if f[0] == "cond":
            toks = set(_idents(f[1]))
            if toks & names:
                continue
            if suspended and "self." in f[1]:
                continue
            if any(m in f[1] for m in mutated_attrs):
                continue
        out.add(f)
    # facts established by simple constant assignments
    if node.kind == "stmt" and isinstance(a, ast.Assign) and \
            len(a.targets) == 1 and isinstance(a.targets[0], ast.Name):
        x = a.targets[0].id
        v = a.value
        if isinstance(v, ast.Constant):
            if v.value is None:
                out |= {("cond", "%s is None" % x, True), ("cond", x, False)}
            else:
                out |= {("cond", "%s is None" % x, False),
                        ("cond", x, bool(v.value))}
                if not isinstance(v.value, bool):
                    out.add(("cond", "%s == %s" % (x, unparse(v)), True))
        elif isinstance(v, ast.Name) and v.id != x:
            # a copy carries what the path knows about the copied name
            for f in list(out):
                if f[0] == "cond" and f[1] == "%s is None" % v.id:
                    out.add(("cond", "%s is None" % x, f[2]))
                elif f[0] == "cond" and f[1] == v.id:
                    out.add(("cond", x, f[2]))
        elif isinstance(v, ast.Compare) and len(v.ops) == 1 and isinstance(
                v.ops[0], (ast.Is, ast.IsNot)) and isinstance(
                    v.comparators[0], ast.Constant) and \
                v.comparators[0].value is None and isinstance(
                    v.left, ast.Name) and v.left.id != x:
            # flag = y is None, with what is known about y on this path
            for b_ in (True, False):
                if ("cond", "%s is None" % v.left.id, b_) in out:
                    val_ = b_ if isinstance(v.ops[0], ast.Is) else not b_
                    out |= {("cond", x, val_),
                            ("cond", "%s is None" % x, False)}
        elif isinstance(v, ast.BinOp) and isinstance(
                v.op, (ast.Add, ast.Sub, ast.Mult, ast.FloorDiv, ast.LShift,
                       ast.RShift, ast.BitAnd, ast.BitOr)):
            out.add(("cond", "%s is None" % x, False))
        elif isinstance(v, ast.Call) and isinstance(
                v.func, (ast.Name, ast.Attribute)) and (
                    v.func.id if isinstance(v.func, ast.Name)
                    else v.func.attr)[:1].isupper() and (
                    v.func.id if isinstance(v.func, ast.Name)
                    else v.func.attr).endswith(("Error", "Exception",
                                                "Failure", "Implemented",
                                                "Writeable")):
            # idiom: an exception instance built for a deferred raise is a
            # truthy, non-None object
            out |= {("cond", "%s is None" % x, False), ("cond", x, True)}
    if node.kind == "for" and isinstance(a.target, ast.Name) and isinstance(
            a.iter, ast.Call) and isinstance(a.iter.func, ast.Name) and \
            a.iter.func.id == "range":
        # the loop variable of a range is an int (never None)
        out.add(("cond", "%s is None" % a.target.id, False))
    if node.kind == "stmt" and isinstance(a, ast.AugAssign) and isinstance(
            a.target, ast.Name) and isinstance(
                a.op, (ast.Add, ast.Sub, ast.Mult, ast.FloorDiv, ast.LShift,
                       ast.RShift, ast.BitAnd, ast.BitOr, ast.BitXor)):
        # x += 1 succeeded, so x is a number (not None)
        out.add(("cond", "%s is None" % a.target.id, False))
    return frozenset(out)


def _idents(text):
    cur = ""
    for ch in text:
        if ch.isalnum() or ch == "_":
            cur += ch
        else:
            if cur:
                yield cur
            cur = ""
    if cur:
        yield cur


# ---------------------------------------------------------------------------
# R-RDISC: response-use discipline

def _is_attr_chain(expr, names):
    """expr is Name(names[0]).names[1]...; returns True/False."""
    cur = expr
    for attr in reversed(names[1:]):
        if not (isinstance(cur, ast.Attribute) and cur.attr == attr):
            return False
        cur = cur.value
    return isinstance(cur, ast.Name) and cur.id == names[0]


def response_uses(node_ast, var):
    """Uses of response variable `var` inside a statement that need a clean
    answer: X.raw_value.as_integer, X.raw_value[...], X.raw_value + ...,
    X.value used (other than in is/bool tests)."""
    uses = []
    for n in _walk_no_nested(node_ast):
        if isinstance(n, ast.Attribute) and n.attr == "as_integer" \
                and _is_attr_chain(n.value, [var, "raw_value"]):
            uses.append(("raw_value.as_integer", n))
        elif isinstance(n, ast.Subscript) and _is_attr_chain(
                n.value, [var, "raw_value"]):
            uses.append(("raw_value[]", n))
        elif isinstance(n, ast.BinOp) and (
                _is_attr_chain(n.left, [var, "raw_value"])
                or _is_attr_chain(n.right, [var, "raw_value"])):
            uses.append(("raw_value binop", n))
    return uses


def rdisc_facts_transfer(resp_vars, check_bad_rsp_names=("check_bad_rsp",)):
    """Returns (transfer, edge_transfer) tracking, per response variable X:
       ('nonnone', X): X.raw_value is known not None / truthy
       ('noerr', X):   X.raw_value.error is known False
       ('good', X):    check_bad_rsp(X) returned False
    A fresh binding of X kills all three."""
    def transfer(node, state):
        if node.ast is None:
            return state
        if node.kind in ("stmt", "for", "with_enter"):
            names = assigned_names(node.ast if node.kind == "stmt"
                                   else getattr(node.ast, "target", node.ast))
            if names & resp_vars:
                state = frozenset(f for f in state if f[1] not in names)
        return state

    def edge(src, label, dst, state):
        if src.kind != "test" or label not in ("T", "F"):
            return state
        e = src.ast
        tval = (label == "T")
        add = set()
        for X in resp_vars:
            # X.raw_value is None  (F => nonnone)
            if isinstance(e, ast.Compare) and len(e.ops) == 1 and \
                    _is_attr_chain(e.left, [X, "raw_value"]) and \
                    isinstance(e.comparators[0], ast.Constant) and \
                    e.comparators[0].value is None:
                if isinstance(e.ops[0], ast.Is) and not tval:
                    add.add(("nonnone", X))
                if isinstance(e.ops[0], ast.IsNot) and tval:
                    add.add(("nonnone", X))
            # truthiness of X.raw_value: a Frame defines __len__ >= 1, so
            # truthy <=> not None
            if _is_attr_chain(e, [X, "raw_value"]) and tval:
                add.add(("nonnone", X))
            # X.raw_value.error
            if _is_attr_chain(e, [X, "raw_value", "error"]) and not tval:
                add.add(("noerr", X))
            # check_bad_rsp(X)
            if isinstance(e, ast.Call) and isinstance(e.func, ast.Name) and \
                    e.func.id in check_bad_rsp_names and len(e.args) == 1 \
                    and isinstance(e.args[0], ast.Name) and \
                    e.args[0].id == X and not tval:
                add |= {("nonnone", X), ("noerr", X), ("good", X)}
            # isinstance(X.value, int): NumericResponse.value is an int
            # exactly on a clean frame
            if isinstance(e, ast.Call) and isinstance(e.func, ast.Name) and \
                    e.func.id == "isinstance" and len(e.args) == 2 and \
                    _is_attr_chain(e.args[0], [X, "value"]) and \
                    isinstance(e.args[1], ast.Name) and e.args[1].id == "int" \
                    and tval:
                add |= {("nonnone", X), ("noerr", X), ("good", X)}
        return state | add if add else state
    return transfer, edge


# ---------------------------------------------------------------------------
def response_class_of(world, cls):
    """The Response class attached to command class `cls` (ClassInfo) or
    None."""
    r = cls.lookup("response")
    if r is None:
        return None
    owner, kind, node = r
    if kind != "attr":
        return None
    if isinstance(node, ast.Constant) and node.value is None:
        return None
    b = world.resolve(owner.mod, node)
    if b is not None and b.kind == "class":
        return b.value
    # nested / same-module class referenced by bare name inside class body
    if isinstance(node, ast.Name):
        b = world.lookup(owner.mod, node.id)
        if b is not None and b.kind == "class":
            return b.value
    return None


def check_rdisc(run, world, modname, fq, cfg, ys, mod, rule="R-RDISC",
                extra_good_calls=("check_bad_rsp",)):
    """Every use of a sent-in response that needs a clean backward frame is
    dominated by a None test and an .error test (or an accepted idiom)."""
    resp_vars = {y.target for y in ys if y.target and not y.is_from}
    if not resp_vars:
        return 0
    yesno = set()
    for X in resp_vars:
        cl = [y.cls for y in ys if y.target == X]
        if cl and all(c is not None and (lambda rc: rc is not None and any(
                getattr(k, "qname", "") == "dali.command.YesNoResponse"
                for k in rc.mro))(response_class_of(world, c)) for c in cl):
            yesno.add(X)
    transfer, edge0 = rdisc_facts_transfer(resp_vars, extra_good_calls)

    def edge(src, label, dst, st):
        st = edge0(src, label, dst, st)
        if src.kind == "test" and label in ("T", "F"):
            e = src.ast
            for X in yesno:
                # YesNoResponse.value is True exactly when a frame arrived
                pol = None
                if _is_attr_chain(e, [X, "value"]):
                    pol = True
                elif isinstance(e, ast.Compare) and len(e.ops) == 1 and \
                        _is_attr_chain(e.left, [X, "value"]) and isinstance(
                            e.comparators[0], ast.Constant) and \
                        e.comparators[0].value is True:
                    if isinstance(e.ops[0], (ast.Is, ast.Eq)):
                        pol = True
                    elif isinstance(e.ops[0], (ast.IsNot, ast.NotEq)):
                        pol = False
                if pol is not None and (label == "T") == pol:
                    st = st | {("nonnone", X)}
        return st
    IN = forward(cfg, transfer, must=True, edge_transfer=edge)
    ybind = {y.node.id: y for y in ys if y.target and not y.is_from}

    def tdefs(node, st):
        y = ybind.get(node.id)
        if y is not None:
            st = frozenset(f for f in st if f[0] != y.target) | {
                (y.target, y.name)}
        return st
    DEFS = forward(cfg, tdefs, must=False)

    def src_of(n, X):
        return "|".join(sorted(f[1] for f in DEFS.get(n.id, ()) if
                               f[0] == X)) or "?"
    n_sites = 0
    for n in cfg.reachable:
        if n.ast is None or n.kind not in ("stmt", "test", "for"):
            continue
        st = IN.get(n.id)
        if st is None:
            continue
        a = n.ast.iter if n.kind == "for" else n.ast
        for X in resp_vars:
            for (what, node) in response_uses(a, X):
                n_sites += 1
                ok = ("nonnone", X) in st and ("noerr", X) in st
                missing = [k for k in ("nonnone", "noerr")
                           if (k, X) not in st]
                run.ob(rule, "%s#%s<-%s.%s" % (fq, X, src_of(n, X), what), ok,
                       "%s.%s is used without a dominating %s check: a "
                       "missing answer or a framing error is read as data"
                       % (X, what, " and ".join(
                           {"nonnone": "`raw_value is None`",
                            "noerr": "`raw_value.error`"}[m]
                           for m in missing)),
                       "%s:%s" % (mod.relpath, n.lineno),
                       sample={"rule": rule, "use": unparse(node),
                               "line": n.lineno, "facts": sorted(
                                   map(str, st))})
            # X.raw_value.error needs a frame
            for sub in _walk_no_nested(a):
                if _is_attr_chain(sub, [X, "raw_value", "error"]):
                    # the test that establishes it may be this very node in
                    # an `a or b` chain - conditions are split, so IN holds
                    ok = ("nonnone", X) in st
                    n_sites += 1
                    run.ob(rule, "%s#%s<-%s.raw_value.error" % (
                        fq, X, src_of(n, X)), ok,
                           "%s.raw_value.error is read where %s.raw_value "
                           "may be None" % (X, X),
                           "%s:%s" % (mod.relpath, n.lineno))
    return n_sites


# ---------------------------------------------------------------------------
def enumerate_yield_paths(cfg, ys, limit=4096, loop_bound=1):
    """Yield sequences along all entry->exit/raise paths of a CFG, pruning
    edges that contradict condition facts established earlier on the same
    path (facts on a name are dropped when the name is reassigned).  Loops are
    unrolled `loop_bound` times.  Returns a list of (tuple of YieldInfo,
    'exit'|'raise', cond facts, last statement node)."""
    ynode = {y.node.id: y for y in ys}
    out = []
    cet = cond_edge_transfer()
    stack = [(cfg.entry, (), frozenset(), {}, None)]
    steps = 0
    while stack:
        steps += 1
        if steps > 400000:
            raise AnalysisError("path enumeration exploded in %s" % cfg.name)
        n, seq, st, visits, last = stack.pop()
        st = kill_conds_on_assign(n, st)
        if n.id in ynode:
            seq = seq + (ynode[n.id],)
        if n is cfg.exit or n is cfg.raise_exit:
            out.append((seq, "exit" if n is cfg.exit else "raise", st, last))
            if len(out) > limit:
                raise AnalysisError("too many paths in %s" % cfg.name)
            continue
        c = visits.get(n.id, 0)
        if c > loop_bound:
            continue
        v2 = dict(visits)
        v2[n.id] = c + 1
        for (l, m) in n.succ:
            if l == "exc" and not (n.kind == "stmt" and isinstance(
                    n.ast, ast.Raise)):
                continue
            s2 = cet(n, l, m, st)
            if s2 is None:
                continue
            stack.append((m, seq, s2, v2,
                          n if n.kind == "stmt" else last))
    return out


# ---------------------------------------------------------------------------
# a sequence is a function of its arguments and of the answers it is sent:
# what it keeps between runs (a memo in a module-level dict, on the class or
# on the object) is state of the *library*, not of the bus - a different
# unit at the same address, or a unit whose memory changed, is then read
# through stale data

_MUTATORS = ("setdefault", "update", "append", "add", "pop", "clear",
             "extend", "insert", "remove", "discard", "popitem",
             "__setitem__", "__delitem__")


def nonlocal_stores(fn):
    """[(node, text)] of the places where `fn` writes to something that
    outlives the call: attribute / subscript stores and mutating method
    calls whose root is not a local of fn, `global` / `nonlocal`."""
    params = {a.arg for a in fn.args.args + fn.args.kwonlyargs +
              fn.args.posonlyargs}
    if fn.args.vararg:
        params.add(fn.args.vararg.arg)
    if fn.args.kwarg:
        params.add(fn.args.kwarg.arg)
    declared = set()
    out = []
    for n in _walk_no_nested(fn):
        if isinstance(n, (ast.Global, ast.Nonlocal)):
            declared |= set(n.names)
            out.append((n, unparse(n)))
    local = set()
    for n in _walk_no_nested(fn):
        if isinstance(n, ast.Name) and isinstance(n.ctx, ast.Store) and \
                n.id not in declared:
            local.add(n.id)
        if isinstance(n, ast.ExceptHandler) and n.name:
            local.add(n.name)
    # parameters are the caller's objects: `self` / `cls` outlive the call;
    # other parameters (a frame being filled in) are the caller's business
    outliving = {"self", "cls"}

    def root(e):
        while isinstance(e, (ast.Attribute, ast.Subscript)):
            e = e.value
        return e.id if isinstance(e, ast.Name) else None
    for n in _walk_no_nested(fn):
        tgt = None
        if isinstance(n, (ast.Attribute, ast.Subscript)) and isinstance(
                n.ctx, (ast.Store, ast.Del)):
            tgt = n
        elif isinstance(n, ast.Call) and isinstance(
                n.func, ast.Attribute) and n.func.attr in _MUTATORS:
            tgt = n.func.value
            if isinstance(tgt, ast.Name):
                # a method call on a plain name mutates that object
                r = tgt.id
                if r in outliving or (r not in local and r not in params):
                    out.append((n, unparse(n, 80)))
                continue
        if tgt is None:
            continue
        r = root(tgt)
        if r is None:
            continue
        if r in outliving or (r not in local and r not in params):
            out.append((n, unparse(n if isinstance(n, ast.Call) else tgt,
                                   80)))
    return out


def check_stateless(run, rule, mod, named_fns, floor):
    """named_fns: [(qualified name, FunctionDef)].  One obligation per
    function: it writes to nothing that outlives the call."""
    run.rule(rule, "sequences keep nothing between runs: no store to a "
             "module-level container, to the class or to the object")
    n = 0
    for (q, fn) in named_fns:
        if not any(isinstance(x, (ast.Yield, ast.YieldFrom))
                   for x in _walk_no_nested(fn)):
            continue
        n += 1
        st = nonlocal_stores(fn)
        run.ob(rule, q, not st,
               "%s keeps state between runs (%s): what a later run is told "
               "then depends on an earlier one - another unit at the same "
               "address, or the same unit after its memory changed, is read "
               "through stale data, and commands that also set up the unit "
               "(DTR1, the latch) are skipped" % (
                   q.split(".")[-1], "; ".join(t for _, t in st[:3])),
               where(mod, st[0][0]) if st else where(mod, fn))
    run.floor("%s: sequence functions examined" % rule, n, floor)


def shared_state_writes(world, k, f):
    """Texts of the places where method `f` of class `k` writes to something
    shared between the objects of the class: a class-level container reached
    through self / cls / type(self), the class itself, a module global.  The
    object's own attributes (`self.x = ...`, containers some method of the
    class family assigns to `self.x`) are the object's business."""
    inst = set()
    for k2 in world.class_order:
        if k in k2.mro or k2 in k.mro:
            for (mn, (kind, f2)) in k2.methods.items():
                for x in _walk_no_nested(f2):
                    if isinstance(x, ast.Attribute) and isinstance(
                            x.ctx, ast.Store) and isinstance(
                                x.value, ast.Name) and x.value.id == "self":
                        inst.add(x.attr)
    bad = []
    for (node, text) in nonlocal_stores(f):
        if isinstance(node, (ast.Global, ast.Nonlocal)):
            bad.append(text)
            continue
        t = node.func.value if isinstance(node, ast.Call) else node
        chain = []
        e = t
        while isinstance(e, (ast.Attribute, ast.Subscript)):
            chain.append(e)
            e = e.value
        root = e.id if isinstance(e, ast.Name) else None
        if root == "self":
            first = chain[-1] if chain else None
            if isinstance(first, ast.Attribute) and first.attr not in (
                    "__class__",):
                if first is t and not isinstance(node, ast.Call):
                    continue        # self.x = ...
                if first.attr in inst:
                    continue        # a container the object made itself
        bad.append(text)
    return bad
