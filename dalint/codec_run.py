"""Drivers for the codec interpreter: symbolic decode of all frames of a
width (R-CODEC, R-FALLBACK, R-WIDTH) and constructor shapes (R-CODEC-1,
R-VALID, R-KIND)."""
import ast

from .core import AnalysisError
from .codec import (Interp, State, AFrame, ClsRef, Sym, Raise, Ref, Obj,
                    AInt, ABool, IvInt, NonInt, norm, lane_val, _lane_str)
from .front import ClassInfo


def decode_all(world, rx, folder, width, mapmode):
    """Interpret dali.command.Command.from_frame on a fully symbolic frame.
    Returns (interp, [(value|Raise, state)])."""
    I = Interp(world, rx, folder, mapmode)
    st = State()
    f = st.new(AFrame("ForwardFrame", width,
                      [("in", j) for j in range(width)]))
    cmd = world.cls("dali.command.Command")
    r = cmd.lookup("from_frame")
    dim = None if mapmode == "nomap" else ("map", mapmode)
    results = I.call_fn(r[2], r[0], [f],
                        {"devicetype": Sym("dt"), "dev_inst_map": dim}, st,
                        self_=ClsRef(cmd), kind="classmethod")
    return I, results


def cube_str(st, limit=12):
    items = []
    for k, v in sorted(st.cube.items(), key=lambda kv: repr(kv[0])):
        if isinstance(k, tuple) and k[0] == "symv":
            items.append("%s=%s" % (k[1], v))
        else:
            items.append("%s=%d" % (_lane_str(k), v))
    s = " ".join(items[:limit])
    if len(items) > limit:
        s += " ..."
    if st.neg:
        s += " (and %d excluded key(s))" % len(st.neg)
    return s


def frame_of(st, v):
    """AFrame stored in a decoded command object (its _data)."""
    o = st.d(v)
    if not isinstance(o, Obj):
        return None
    d = o.f.get("_data")
    return st.d(d) if d is not None else None


def lanes_match(st, lanes, want):
    """lanes[i] equals want[i], or is a constant the cube forces want[i] to."""
    errs = []
    for i, (l, w) in enumerate(zip(lanes, want)):
        if l == w:
            continue
        if l in (0, 1) and lane_val(st, w) == l:
            continue
        if w in (0, 1) and l not in (0, 1) and lane_val(st, l) == w:
            continue
        errs.append((i, l, w))
    if len(lanes) != len(want):
        errs.append(("len", len(lanes), len(want)))
    return errs


# ---------------------------------------------------------------------------
# constructor shapes (encode direction)

ADDR = "dali.address."
GEAR_DESTS = ["GearShort", "GearGroup", "GearBroadcast",
              "GearBroadcastUnaddressed"]
DEVICE_DESTS = ["DeviceShort", "DeviceGroup", "DeviceBroadcast",
                "DeviceBroadcastUnaddressed"]
INSTANCES = ["InstanceNumber", "InstanceGroup", "InstanceType",
             "FeatureInstanceNumber", "FeatureInstanceGroup",
             "FeatureInstanceType", "FeatureInstanceBroadcast",
             "InstanceBroadcast", "FeatureDevice", "Device"]


def construct(I, st, cls, args, kwargs):
    """Instantiate repository class `cls` on abstract arguments.  Returns
    [(Ref|Raise, state)]."""
    out = []
    for v, env, st2 in I.instantiate(cls, list(args), dict(kwargs), {}, st,
                                     None):
        out.append((v, st2))
    return out


def build_address(I, world, st, kind, pname="addr"):
    """[(Ref, state)] for a legal address/instance object of `kind` with a
    symbolic number."""
    c = world.cls(ADDR + kind)
    r = c.lookup("__init__")
    nparams = 0
    if r is not None and r[1] not in ("attr", "class"):
        nparams = len(r[2].args.args) - 1
    args = [IvInt(pname)] if nparams == 1 else []
    res = []
    for v, st2 in construct(I, st, c, args, {}):
        if isinstance(v, Raise):
            continue           # illegal values of the number: not this shape
        res.append((v, st2))
    return res


def same_value(st, a, b, path="", skip=("_data",)):
    """Structural equality of two abstract values under the state's cube.
    Returns a list of differences (empty = equal)."""
    a0, b0 = st.d(a) if isinstance(a, Ref) else a, \
        st.d(b) if isinstance(b, Ref) else b
    if isinstance(a0, Obj) and isinstance(b0, Obj):
        if a0.cls is not b0.cls or a0.nt != b0.nt:
            return ["%s: class %s vs %s" % (path, a0.cls.name if a0.cls
                                            else a0.nt,
                                            b0.cls.name if b0.cls else b0.nt)]
        diffs = []
        for k in sorted(set(a0.f) | set(b0.f)):
            if k in skip:
                continue
            if k not in a0.f or k not in b0.f:
                av, bv = a0.f.get(k), b0.f.get(k)
                # a field left at its class default on one side
                if av is None or bv is None:
                    other = bv if av is None else av
                    cdef = None
                    if a0.cls is not None and a0.cls.lookup(k) is not None:
                        cdef = "classdefault"
                    if other is None or cdef == "classdefault" and \
                            other is None:
                        continue
                diffs.append("%s.%s: %r vs %r" % (path, k, a0.f.get(k),
                                                  b0.f.get(k)))
                continue
            diffs += same_value(st, a0.f[k], b0.f[k], path + "." + k, skip)
        return diffs
    if isinstance(a0, AFrame) and isinstance(b0, AFrame):
        e = lanes_match(st, a0.lanes, b0.lanes)
        return ["%s: frame lanes %s" % (path, e[:4])] if e else []
    if isinstance(a0, (tuple, list)) and isinstance(b0, (tuple, list)):
        if len(a0) != len(b0):
            return ["%s: length" % path]
        d = []
        for i, (x, y) in enumerate(zip(a0, b0)):
            d += same_value(st, x, y, "%s[%d]" % (path, i), skip)
        return d
    intlike = (int, bool, AInt, ABool, IvInt)
    if isinstance(a0, intlike) and isinstance(b0, intlike) and not (
            isinstance(a0, bool) != isinstance(b0, bool) and False):
        try:
            la, lb = _lanes(a0), _lanes(b0)
        except Raise as r:
            return ["%s: %s" % (path, r.exc)]
        n = max(len(la), len(lb))
        la += [0] * (n - len(la))
        lb += [0] * (n - len(lb))
        e = lanes_match(st, la, lb)
        return ["%s: %r vs %r" % (path, a0, b0)] if e else []
    from .codec import Cmp
    if isinstance(a0, Cmp) and isinstance(b0, Cmp):
        if a0.neg != b0.neg or len(a0.pairs) != len(b0.pairs):
            return ["%s: comparison shape" % path]
        e = lanes_match(st, [p[0] for p in a0.pairs],
                        [p[0] for p in b0.pairs])
        if e or [p[1] for p in a0.pairs] != [p[1] for p in b0.pairs]:
            return ["%s: %r vs %r" % (path, a0.pairs, b0.pairs)]
        return []
    if a0 is None and b0 is None:
        return []
    if isinstance(a0, str) and isinstance(b0, str):
        return [] if a0 == b0 else ["%s: %r vs %r" % (path, a0, b0)]
    if type(a0) is type(b0) and a0 == b0:
        return []
    return ["%s: %r vs %r" % (path, a0, b0)]


def _lanes(v):
    from .codec import lanes_of
    if isinstance(v, bool):
        return [int(v)]
    return list(lanes_of(v))


def decode_frame(I, world, st, frame_ref, devicetype=0, mapmode="nomap",
                 map_type=None):
    """Run the top-level decoder on an already built (abstract) frame."""
    cmd = world.cls("dali.command.Command")
    r = cmd.lookup("from_frame")
    old = I.mapmode
    dim = None if mapmode == "nomap" else ("map", mapmode)
    st2 = st.fork()
    if map_type is not None:
        st2.cube[("symv", "it")] = map_type
    return I.call_fn(r[2], r[0], [frame_ref],
                     {"devicetype": devicetype, "dev_inst_map": dim}, st2,
                     self_=ClsRef(cmd), kind="classmethod")
